#!/usr/bin/env python3
"""thpromote.py [ids...] : development aid for calibrating the thorough tier. For every entry of
checks/pending_thorough.json (a deeper bound that has not yet been run clean), run the harness with
the wanted parameters under a wall-clock cap; if it completes with no violation, no unknown and no
inconclusive path, write the parameters into checks/<id>.json as the thorough bound (or re-add the
thorough-only harness) and drop the entry. Only bounds that ran clean are ever registered."""
import json, os, subprocess, sys, time, fcntl

CAP = int(os.environ.get("THPROBE_CAP", "1200"))
PENDING = "/verif/checks/pending_thorough.json"
env = dict(os.environ)
env["PATH"] = "/root/go/pkg/mod/golang.org/toolchain@v0.0.1-go1.24.0.linux-amd64/bin:" + env["PATH"]
env.update(GOTOOLCHAIN="local", GOFLAGS="-mod=mod", GOPROXY="off")
kf = {}
for l in open("/verif/known_findings.txt"):
    if l.startswith("known:"):
        parts = l.split()
        kf.setdefault(parts[1].split("=")[1], []).append(parts[2].split("=")[1])


def locked(fn):
    with open("/tmp/thpromote.lock", "w") as lk:
        fcntl.flock(lk, fcntl.LOCK_EX)
        return fn()


ids = sys.argv[1:]
pending = json.load(open(PENDING))
todo = [(cid, i) for cid in sorted(pending) if not ids or cid in ids for i in range(len(pending[cid]))]
for cid, idx in todo:
    ent = pending[cid][idx]
    cur = json.load(open(PENDING)).get(cid, [])
    now = [e for e in cur if e.get("entry") == ent.get("entry") and e.get("name") == ent.get("name")]
    if not now or now[0].get("tried"):
        continue  # promoted or tried meanwhile (another instance may be running)
    cfg = json.load(open("/verif/checks/%s.json" % cid))
    if "wanted" in ent:
        h = next(x for x in cfg["harnesses"] if x["entry"] == ent["entry"] and x.get("name") == ent.get("name"))
        params = ent["wanted"]
    else:
        h = ent
        params = dict(h.get("params", {}))
        params.update(h.get("thorough", {}))
    label = h["entry"] + ("[" + h["name"] + "]" if h.get("name") else "")
    out = "/tmp/thpromote-%s-%s.json" % (cid, label.replace("[", "_").replace("]", ""))
    cmd = ["/verif/bin/gosym", "-pkg", h["pkg"], "-entry", h["entry"], "-workers", "8", "-out", out, "-timeout", "%ds" % CAP]
    if params:
        cmd += ["-param", ",".join("%s=%d" % kv for kv in sorted(params.items()))]
    if kf.get(cid):
        cmd += ["-known", ",".join(kf[cid])]
    for k, flag in (("maxsteps", "-maxsteps"), ("maxdec", "-maxdec")):
        if h.get(k):
            cmd += [flag, str(h[k])]
    t0 = time.time()
    try:
        subprocess.run(cmd, cwd="/verif/engine", env=env, capture_output=True, text=True, timeout=CAP + 300)
        r = json.load(open(out))
    except Exception as e:
        r = {"Incomplete": "probe error: %s" % e, "Paths": 0}
    wall = round(time.time() - t0, 1)
    bad = [k for k in (r.get("Outcomes") or {}) if k not in ("ok", "infeasible")]
    clean = not r.get("Incomplete") and not r.get("ViolationCnt") and not r.get("Unknown") and not bad and not r.get("SolverErrors")
    print(json.dumps(dict(check=cid, harness=label, params=params, paths=r.get("Paths"), wall=wall, clean=clean,
                          incomplete=r.get("Incomplete"), violations=r.get("ViolationCnt"), bad=bad)), flush=True)
    open("/tmp/thpromote.jsonl", "a").write(json.dumps(dict(check=cid, harness=label, params=params, paths=r.get("Paths"), wall=wall, clean=clean)) + "\n")

    def update():
        pend = json.load(open(PENDING))
        cfg = json.load(open("/verif/checks/%s.json" % cid))
        lst = pend.get(cid, [])
        match = [e for e in lst if e.get("entry") == ent.get("entry") and e.get("name") == ent.get("name")]
        if clean and match:
            if "wanted" in ent:
                for x in cfg["harnesses"]:
                    if x["entry"] == ent["entry"] and x.get("name") == ent.get("name"):
                        x["thorough"] = {k: v for k, v in params.items() if k not in x.get("params", {}) or x["params"][k] != v}
                        x.setdefault("timeout", {})
                        if isinstance(x["timeout"], dict):
                            x["timeout"]["thorough"] = max(int(wall * 4), 1800)
            else:
                ent.setdefault("timeout", {})["thorough"] = max(int(wall * 4), 1800)
                cfg["harnesses"].append(ent)
            json.dump(cfg, open("/verif/checks/%s.json" % cid, "w"), indent=1)
        if match:
            if clean:
                lst.remove(match[0])
            else:
                match[0]["tried"] = dict(wall=wall, paths=r.get("Paths"), incomplete=r.get("Incomplete"), violations=r.get("ViolationCnt"))
            pend[cid] = lst
            if not lst:
                pend.pop(cid)
            json.dump(pend, open(PENDING, "w"), indent=1)

    locked(update)
