#!/usr/bin/env python3
"""seedtest.py <src_dir> <id> <property> [check args...]

Confirms a seeded mutation produced by a sub-agent (patch.diff, demo_test.go, meta.json in
<src_dir>) in a scratch worktree of /repo (compiles; existing tests pass; demo fails with
the patch and passes without it), stores it under /verif/seeded/<id>/, then applies it to
/repo, runs ./check <property>, records whether the check caught it, and reverts /repo.
"""
import json, os, shutil, subprocess, sys, time

TOOL = "/root/go/pkg/mod/golang.org/toolchain@v0.0.1-go1.24.0.linux-amd64/bin"
ENV = dict(os.environ, PATH=TOOL + ":" + os.environ["PATH"], GOTOOLCHAIN="local", GOFLAGS="-mod=mod", GOPROXY="off")


def sh(cmd, cwd, timeout=1800):
    p = subprocess.run(cmd, cwd=cwd, shell=True, env=ENV, capture_output=True, text=True, timeout=timeout)
    return p.returncode, (p.stdout + p.stderr)[-3000:]


def main():
    src, sid, prop = sys.argv[1], sys.argv[2], sys.argv[3]
    extra = sys.argv[4:]
    meta = json.load(open(os.path.join(src, "meta.json")))
    wt = "/tmp/seedwt-" + sid
    sh("git worktree remove --force %s" % wt, "/repo")
    rc, out = sh("git worktree add -q --detach %s HEAD" % wt, "/repo")
    assert rc == 0, out
    rec = dict(id=sid, property=prop, meta=meta, confirmed={})
    try:
        rc, out = sh("git apply %s" % os.path.join(src, "patch.diff"), wt)
        rec["confirmed"]["patch_applies"] = rc == 0
        if rc != 0:
            rec["confirmed"]["error"] = out
            return rec
        rc, out = sh("go build ./... && go vet ./... >/dev/null 2>&1; go test -count=1 ./... 2>&1 | grep -v '^ok\\|no test files' | head -20", wt)
        rec["confirmed"]["existing_tests_pass_with_patch"] = ("FAIL" not in out)
        rec["confirmed"]["test_output_with_patch"] = out[-800:]
        loc = meta.get("demo_location", "").strip().split()[0].strip("`'\"")
        loc = loc.replace("/tmp/wt-%s/" % prop, "").strip("/")
        if loc.startswith("/"):
            loc = loc.lstrip("/")
        demo_dir = os.path.join(wt, loc)
        os.makedirs(demo_dir, exist_ok=True)
        demo = os.path.join(demo_dir, "zz_seeded_demo_test.go")
        shutil.copy(os.path.join(src, "demo_test.go"), demo)
        race = "-race " if meta.get("race") else ""
        rc1, out1 = sh("go test %s-count=1 ./%s/ 2>&1 | tail -15" % (race, loc), wt)
        rec["confirmed"]["demo_fails_with_patch"] = "FAIL" in out1
        sh("git checkout -- .", wt)
        rc2, out2 = sh("go test %s-count=1 ./%s/ 2>&1 | tail -5" % (race, loc), wt)
        rec["confirmed"]["demo_passes_without_patch"] = ("FAIL" not in out2) and ("ok" in out2)
        rec["confirmed"]["demo_output_with_patch"] = out1[-600:]
    finally:
        sh("git worktree remove --force %s" % wt, "/repo")
    dst = "/verif/seeded/" + sid
    os.makedirs(dst, exist_ok=True)
    for f in ("patch.diff", "demo_test.go"):
        shutil.copy(os.path.join(src, f), os.path.join(dst, f))
    ok = all(rec["confirmed"].get(k) for k in ("patch_applies", "existing_tests_pass_with_patch", "demo_fails_with_patch", "demo_passes_without_patch"))
    rec["kept"] = ok
    if ok:
        # run the check against a mutated COPY of /repo (a worktree with the patch applied);
        # /repo itself is not touched, so other work can go on meanwhile
        mrepo = "/tmp/seedrepo-" + sid
        sh("git worktree remove --force %s" % mrepo, "/repo")
        rc, out = sh("git worktree add -q --detach %s HEAD" % mrepo, "/repo")
        assert rc == 0, out
        try:
            rc, out = sh("git apply %s" % os.path.join(dst, "patch.diff"), mrepo)
            assert rc == 0, out
            modfile = "/tmp/seedmod-%s.mod" % sid
            gomod = open("/verif/engine/go.mod").read().replace("=> /repo", "=> " + mrepo)
            open(modfile, "w").write(gomod)
            shutil.copy("/verif/engine/go.sum", modfile[:-4] + ".sum")
            env = dict(os.environ, VERIF_MODFILE=modfile, VERIF_BIN="/tmp/seedbin-" + sid, VERIF_EVIDENCE_DIR="/tmp/seedev-" + sid)
            t0 = time.time()
            p = subprocess.run(["./check", prop] + extra, cwd="/verif", capture_output=True, text=True, timeout=7200, env=env)
            lines = [l for l in p.stdout.splitlines() if l.startswith("VIOLATION")]
            rec["check"] = dict(cmd="./check %s %s" % (prop, " ".join(extra)), exit=p.returncode, violation_lines=lines[:5],
                                caught=(p.returncode == 1 and bool(lines)), wall_s=round(time.time() - t0, 1),
                                stderr_tail=p.stderr[-1500:])
        finally:
            sh("git worktree remove --force %s" % mrepo, "/repo")
            sh("rm -rf /tmp/seedbin-%s /tmp/seedev-%s /tmp/seedmod-%s.mod /tmp/seedmod-%s.sum" % (sid, sid, sid, sid), "/tmp")
    json.dump(dict(property=prop, what_it_breaks=meta.get("what_it_breaks"), needs_to_manifest=meta.get("needs_to_manifest"),
                   agent_commands=meta.get("commands_run"), confirmed=rec["confirmed"], kept=rec["kept"], check=rec.get("check")),
              open(os.path.join(dst, "meta.json"), "w"), indent=1)
    return rec


if __name__ == "__main__":
    r = main()
    print(json.dumps({k: r.get(k) for k in ("id", "kept", "check")}, indent=1)[:1500])
    c = r.get("confirmed", {})
    print({k: v for k, v in c.items() if isinstance(v, bool)})
