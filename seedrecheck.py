#!/usr/bin/env python3
"""seedrecheck.py <id> [check args...]: re-run the check of a stored seeded change
(seeded/<id>/patch.diff) against a patched COPY of /repo and update meta.json's "check"."""
import json, os, shutil, subprocess, sys, time
from seedtest import sh


def main():
    sid = sys.argv[1]
    extra = sys.argv[2:]
    dst = "/verif/seeded/" + sid
    meta = json.load(open(dst + "/meta.json"))
    prop = meta["property"]
    mrepo = "/tmp/seedrepo-" + sid
    sh("git worktree remove --force %s" % mrepo, "/repo")
    rc, out = sh("git worktree add -q --detach %s HEAD" % mrepo, "/repo")
    assert rc == 0, out
    try:
        rc, out = sh("git apply %s" % os.path.join(dst, "patch.diff"), mrepo)
        if rc != 0:
            meta["check"] = dict(cmd="(patch no longer applies)", exit=None, caught=None, note=out[-300:])
        else:
            modfile = "/tmp/seedmod-%s.mod" % sid
            open(modfile, "w").write(open("/verif/engine/go.mod").read().replace("=> /repo", "=> " + mrepo))
            shutil.copy("/verif/engine/go.sum", modfile[:-4] + ".sum")
            env = dict(os.environ, VERIF_MODFILE=modfile, VERIF_BIN="/tmp/seedbin-" + sid, VERIF_EVIDENCE_DIR="/tmp/seedev-" + sid)
            t0 = time.time()
            p = subprocess.run(["./check", prop] + extra, cwd="/verif", capture_output=True, text=True, timeout=7200, env=env)
            lines = [l for l in p.stdout.splitlines() if l.startswith("VIOLATION")]
            meta["check"] = dict(cmd="./check %s %s" % (prop, " ".join(extra)), exit=p.returncode, violation_lines=lines[:5],
                                 caught=(p.returncode == 1 and bool(lines)), wall_s=round(time.time() - t0, 1),
                                 stderr_tail=p.stderr[-1500:])
    finally:
        sh("git worktree remove --force %s" % mrepo, "/repo")
        sh("rm -rf /tmp/seedbin-%s /tmp/seedev-%s /tmp/seedmod-%s.mod /tmp/seedmod-%s.sum" % (sid, sid, sid, sid), "/tmp")
    json.dump(meta, open(dst + "/meta.json", "w"), indent=1)
    c = meta["check"]
    print(sid, "caught=%s exit=%s wall=%s" % (c.get("caught"), c.get("exit"), c.get("wall_s")), c.get("violation_lines"))


if __name__ == "__main__":
    main()
