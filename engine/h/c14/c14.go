// Package c14: tokens tile the source and every reported position is faithful.
package c14

import (
	"bufio"
	"bytes"
	"unicode/utf8"

	"github.com/apparentlymart/go-textseg/v15/textseg"
	"github.com/hashicorp/hcl/v2"
	"github.com/hashicorp/hcl/v2/hclsyntax"
	hcljson "github.com/hashicorp/hcl/v2/json"

	"verif/engine/h/gen"
	"verif/engine/h/seeds"
	"verif/engine/vf"
)

var bom = []byte{0xEF, 0xBB, 0xBF}

// refPos is the reference position of byte offset off: line = 1 + newlines
// before off; column = 1 + grapheme clusters between the start of that line and
// off. ok is false when off does not fall on a grapheme-cluster boundary of the line.
func refPos(src []byte, base int, off int) (line, col int, ok bool) {
	line = 1
	ls := base
	for i := base; i < off; i++ {
		if src[i] == '\n' {
			line++
			ls = i + 1
		}
	}
	col = 1
	b := src[ls:]
	p := ls
	for p < off {
		adv, _, _ := textseg.ScanGraphemeClusters(b, true)
		if adv <= 0 {
			return line, col, false
		}
		p += adv
		b = b[adv:]
		col++
	}
	return line, col, p == off
}

// sigLeadByteSwallowsNewline: a UTF-8 lead byte of an n-byte sequence whose next n-1
// bytes (which the scanner's identifier rule accepts without checking that they are
// continuation bytes) include a newline.
func sigLeadByteSwallowsNewline(src []byte) bool {
	for i, c := range src {
		n := 0
		switch {
		case c >= 0xC2 && c <= 0xDF:
			n = 2
		case c >= 0xE0 && c <= 0xEF:
			n = 3
		case c >= 0xF0 && c <= 0xF4:
			n = 4
		}
		for k := 1; k < n && i+k < len(src); k++ {
			if src[i+k] == '\n' {
				return true
			}
		}
	}
	return false
}

func checkTiling(src []byte, toks hclsyntax.Tokens, what string) {
	swallow := sigLeadByteSwallowsNewline(src)
	base := 0
	if bytes.HasPrefix(src, bom) {
		base = 3
	}
	vf.Assert(len(toks) > 0, what+":has-eof")
	if len(toks) == 0 {
		return
	}
	prevEnd := base
	aligned := true // every token boundary so far on this line is a grapheme boundary
	lineOfPrev := 1
	for i, t := range toks {
		r := t.Range
		vf.Assert(r.Start.Byte >= prevEnd, what+":ordered-non-overlapping")
		vf.Assert(r.End.Byte >= r.Start.Byte && r.End.Byte <= len(src), what+":range-in-source")
		if r.Start.Byte < prevEnd || r.End.Byte < r.Start.Byte || r.End.Byte > len(src) {
			return
		}
		vf.Assert(bytes.Equal(t.Bytes, src[r.Start.Byte:r.End.Byte]), what+":bytes-equal-source-slice")
		for _, c := range src[prevEnd:r.Start.Byte] {
			vf.Assert(c == ' ' || c == '\t', what+":gap-only-spaces-tabs")
		}
		if i == len(toks)-1 {
			vf.Assert(t.Type == hclsyntax.TokenEOF, what+":last-is-eof")
			vf.Assert(r.Start.Byte == len(src) && r.End.Byte == len(src), what+":eof-at-end")
		} else {
			vf.Assert(t.Type != hclsyntax.TokenEOF, what+":single-eof")
		}
		// positions
		for _, p := range []hcl.Pos{r.Start, r.End} {
			line, col, ok := refPos(src, base, p.Byte)
			vf.AssertKnown(p.Line == line, what+":line-is-newline-count", "C14-lead-byte-swallows-newline", swallow)
			if line != lineOfPrev {
				aligned = true
				lineOfPrev = line
			}
			if !ok {
				aligned = false
			}
			if aligned {
				vf.AssertKnown(p.Column == col, what+":column-is-grapheme-count", "C14-lead-byte-swallows-newline", swallow)
			}
		}
		prevEnd = r.End.Byte
	}
}

// H_Tile: every byte string of n bytes, normal and template scanning modes.
func H_Tile() {
	n := vf.Param("n", 2)
	mode := vf.Concretize(vf.Choice(2))
	src := vf.Bytes(n)
	vf.Observe("mode", mode)
	if mode == 0 {
		toks, _ := hclsyntax.LexConfig(src, "x.hcl", hcl.InitialPos)
		vf.Observe("ntoks", len(toks))
		checkTiling(src, toks, "normal")
	} else {
		toks, _ := hclsyntax.LexTemplate(src, "x.hcl", hcl.InitialPos)
		vf.Observe("ntoks", len(toks))
		checkTiling(src, toks, "template")
	}
	vf.Reach("done")
}

func seedText() (int, string) {
	list := append(append(append([]seeds.Seed{}, seeds.CorpusConfig...), seeds.ExtraConfig...), seeds.RangeConfig...)
	si := vf.Concretize(vf.Choice(len(list)))
	text := list[si].Text
	if len(text) > vf.Param("maxlen", 100) {
		text = text[:vf.Param("maxlen", 100)]
	}
	return si, text
}

func window(text string) []byte {
	w := vf.Param("w", 1)
	stride := vf.Param("stride", 1)
	op := vf.Concretize(vf.Choice(2))
	off := vf.Concretize(vf.Choice(len(text)/stride+1)) * stride
	if off > len(text) {
		off = len(text)
	}
	b := []byte(text)
	out := append([]byte{}, b[:off]...)
	out = append(out, vf.Bytes(w)...)
	if op == 0 && off+w <= len(b) {
		return append(out, b[off+w:]...) // substitute
	}
	return append(out, b[off:]...) // insert
}

// H_TileSeed: configuration seeds with a symbolic window (heredocs, templates,
// nested interpolation, comments, CRLF): tiling and positions.
func H_TileSeed() {
	si, text := seedText()
	src := window(text)
	vf.Observe("seed", si)
	toks, _ := hclsyntax.LexConfig(src, "x.hcl", hcl.InitialPos)
	vf.Observe("ntoks", len(toks))
	checkTiling(src, toks, "seed")
	vf.Reach("done")
}

func slice(src []byte, r hcl.Range) []byte {
	if r.Start.Byte < 0 || r.End.Byte > len(src) || r.Start.Byte > r.End.Byte {
		return nil
	}
	return src[r.Start.Byte:r.End.Byte]
}

// plainLine: the line containing off is valid UTF-8 in which every rune is its own
// grapheme cluster up to off, so that column counting cannot depend on where token
// boundaries fall.
func plainLine(src []byte, off int) bool {
	ls := off
	for ls > 0 && src[ls-1] != '\n' {
		ls--
	}
	seg := src[ls:off]
	if !utf8.Valid(seg) {
		return false
	}
	n, _ := textseg.TokenCount(seg, textseg.ScanGraphemeClusters)
	return n == utf8.RuneCount(seg)
}

type rangeWalker struct {
	src     []byte
	swallow bool // signature of the finding of record C14-lead-byte-swallows-newline
	stack   []hcl.Range
	lastEnd []int
}

func (w *rangeWalker) Enter(n hclsyntax.Node) hcl.Diagnostics {
	r := n.Range()
	// (the anonymous symbol of a splat is a synthetic node that reports the marker's
	// range, which lies before the traversal it is the source of)
	_, anon := n.(*hclsyntax.AnonSymbolExpr)
	if k := len(w.stack); k > 0 && !anon {
		pr := w.stack[k-1]
		vf.Assert(r.Start.Byte >= pr.Start.Byte && r.End.Byte <= pr.End.Byte, "child-range-inside-parent-range")
		vf.Assert(r.Start.Byte >= w.lastEnd[k-1], "sibling-ranges-in-order-without-overlap")
		w.lastEnd[k-1] = r.End.Byte
	}
	for _, p := range []hcl.Pos{r.Start, r.End} {
		if p.Byte < 0 || p.Byte > len(w.src) {
			continue // reported by the containment assertions
		}
		line, col, ok := refPos(w.src, 0, p.Byte)
		vf.AssertKnown(p.Line == line, "node-line-is-newline-count", "C14-lead-byte-swallows-newline", w.swallow)
		if ok && plainLine(w.src, p.Byte) {
			vf.AssertKnown(p.Column == col, "node-column-is-grapheme-count", "C14-lead-byte-swallows-newline", w.swallow)
		}
	}
	w.stack = append(w.stack, r)
	w.lastEnd = append(w.lastEnd, r.Start.Byte)
	return nil
}

func (w *rangeWalker) Exit(n hclsyntax.Node) hcl.Diagnostics {
	w.stack = w.stack[:len(w.stack)-1]
	w.lastEnd = w.lastEnd[:len(w.lastEnd)-1]
	return nil
}

func checkBodyRanges(src []byte, body *hclsyntax.Body) {
	for name, attr := range body.Attributes {
		vf.Assert(string(slice(src, attr.NameRange)) == name, "attr-name-range")
		vf.Assert(string(slice(src, attr.EqualsRange)) == "=", "attr-equals-range")
		er := attr.Expr.Range()
		es := slice(src, er)
		vf.Assert(es != nil, "expr-range-in-source")
		if es == nil {
			continue
		}
		// the expression's own range re-parses to an equivalent expression
		re, diags := hclsyntax.ParseExpression(es, "x.hcl", er.Start)
		vf.AssertKnown(!diags.HasErrors(), "expr-range-reparses", "C14-heredoc-range-excludes-final-newline", bytes.Contains(es, []byte("<<")))
		if !diags.HasErrors() {
			v1, d1 := attr.Expr.Value(nil)
			v2, d2 := re.Value(nil)
			vf.Assert(d1.HasErrors() == d2.HasErrors(), "expr-range-reparse-same-outcome")
			if !d1.HasErrors() && !d2.HasErrors() {
				vf.Assert(v1.RawEquals(v2), "expr-range-reparse-same-value")
			}
			vf.Assert(len(attr.Expr.Variables()) == len(re.Variables()), "expr-range-reparse-same-variables")
			vf.Assert(re.Range().Start.Byte == er.Start.Byte && re.Range().End.Byte == er.End.Byte, "expr-range-reparse-same-range")
		}
		vf.Assert(attr.SrcRange.Start.Byte == attr.NameRange.Start.Byte && attr.SrcRange.End.Byte == er.End.Byte, "attr-range-spans-name-to-expr")
		// the tree of nested nodes: children inside their parent, siblings in source order without
		// overlap, and every start/end position faithful to its byte offset
		_ = hclsyntax.Walk(attr.Expr, &rangeWalker{src: src, swallow: sigLeadByteSwallowsNewline(src)})
		// every nested expression node: a well-formed range inside the attribute's expression
		hclsyntax.VisitAll(attr.Expr, func(n hclsyntax.Node) hcl.Diagnostics {
			r := n.Range()
			vf.Assert(r.Start.Byte <= r.End.Byte && r.Start.Byte >= er.Start.Byte && r.End.Byte <= er.End.Byte, "nested-node-range-inside-expression")
			if e, ok := n.(hclsyntax.Expression); ok {
				sr := e.StartRange()
				vf.Assert(sr.Start.Byte <= sr.End.Byte && sr.Start.Byte >= er.Start.Byte && sr.End.Byte <= er.End.Byte, "nested-node-start-range-inside-expression")
			}
			if sp, ok := n.(*hclsyntax.SplatExpr); ok {
				m := ""
				for _, c := range slice(src, sp.MarkerRange) {
					if c != ' ' && c != '\t' && c != '\n' && c != '\r' {
						m += string(c)
					}
				}
				vf.Assert(m == ".*" || m == "[*]", "splat-marker-range-slices-to-the-marker")
			}
			if tr, ok := n.(*hclsyntax.ScopeTraversalExpr); ok {
				for _, st := range tr.Traversal {
					sr := st.SourceRange()
					vf.Assert(sr.Start.Byte <= sr.End.Byte && sr.Start.Byte >= r.Start.Byte && sr.End.Byte <= r.End.Byte, "traversal-step-range-inside-traversal")
				}
			}
			return nil
		})
	}
	for _, blk := range body.Blocks {
		vf.Assert(string(slice(src, blk.TypeRange)) == blk.Type, "block-type-range")
		vf.Assert(string(slice(src, blk.OpenBraceRange)) == "{", "block-open-brace-range")
		vf.Assert(string(slice(src, blk.CloseBraceRange)) == "}", "block-close-brace-range")
		vf.Assert(len(blk.LabelRanges) == len(blk.Labels), "block-label-ranges-count")
		for i, lr := range blk.LabelRanges {
			if i >= len(blk.Labels) {
				break
			}
			ls := slice(src, lr)
			if len(ls) > 0 && ls[0] == '"' {
				// quoted label: the range covers the quotes; the content re-parses to the label
				e, diags := hclsyntax.ParseExpression(ls, "x.hcl", lr.Start)
				vf.Assert(!diags.HasErrors(), "label-range-is-a-string-literal")
				if !diags.HasErrors() {
					v, d := e.Value(nil)
					vf.Assert(!d.HasErrors() && v.AsString() == blk.Labels[i], "label-range-denotes-label")
				}
			} else {
				vf.Assert(string(ls) == blk.Labels[i], "bare-label-range")
			}
		}
		checkBodyRanges(src, blk.Body)
	}
}

// H_Ranges: error-free configurations near the seeds: every recorded range slices to its construct.
func H_Ranges() {
	si, text := seedText()
	src := window(text)
	vf.Observe("seed", si)
	f, diags := hclsyntax.ParseConfig(src, "x.hcl", hcl.InitialPos)
	if diags.HasErrors() {
		vf.Reach("error")
		return
	}
	checkBodyRanges(src, f.Body.(*hclsyntax.Body))
	vf.Reach("ok")
}

// H_Lines: hcl.RangeScanner with bufio.ScanLines over n symbolic bytes.
func H_Lines() {
	n := vf.Param("n", 3)
	src := vf.Bytes(n)
	// RangeScanner deliberately treats a lone CR as a line break (its comment relies on
	// CR LF being one cluster) while bufio.ScanLines does not split there; the statement's
	// "counting newlines" does not settle that case, so lone CRs are outside this harness.
	for i, c := range src {
		if c == '\r' {
			vf.Assume(i+1 < len(src) && src[i+1] == '\n')
		}
	}
	sc := hcl.NewRangeScanner(src, "x", bufio.ScanLines)
	prevEnd := 0
	for sc.Scan() {
		r := sc.Range()
		vf.Assert(r.Start.Byte >= prevEnd && r.End.Byte >= r.Start.Byte && r.End.Byte <= len(src), "line-range-ordered-in-source")
		if r.Start.Byte < prevEnd || r.End.Byte < r.Start.Byte || r.End.Byte > len(src) {
			return
		}
		// documented precondition: the split function must not cut inside a grapheme cluster
		_, _, startOK := refPos(src, 0, r.Start.Byte)
		_, _, endOK := refPos(src, 0, r.Start.Byte+len(sc.Bytes()))
		if !startOK || !endOK {
			vf.Reach("unaligned")
			return
		}
		vf.Assert(bytes.Equal(sc.Bytes(), src[r.Start.Byte:r.End.Byte]), "line-bytes-equal-slice")
		for _, p := range []hcl.Pos{r.Start, r.End} {
			line, col, ok := refPos(src, 0, p.Byte)
			vf.Assert(p.Line == line, "line-number")
			if ok {
				vf.Assert(p.Column == col, "line-column")
			}
		}
		prevEnd = r.End.Byte
	}
	vf.Assert(sc.Err() == nil, "range-scanner-no-error")
	vf.Reach("done")
}

// H_JSONRanges: JSON seeds with a symbolic window: names and values slice to their constructs.
func H_JSONRanges() {
	list := append(append([]seeds.Seed{}, seeds.CorpusJSON...), seeds.ExtraJSON...)
	si := vf.Concretize(vf.Choice(len(list)))
	src := window(list[si].Text)
	vf.Observe("seed", si)
	f, diags := hcljson.Parse(src, "x.json")
	if diags.HasErrors() {
		vf.Reach("error")
		return
	}
	attrs, adiags := f.Body.JustAttributes()
	if adiags.HasErrors() {
		vf.Reach("error")
		return
	}
	for name, attr := range attrs {
		ns := slice(src, attr.NameRange)
		vf.Assert(ns != nil && len(ns) >= 2 && ns[0] == '"' && ns[len(ns)-1] == '"', "json-name-range-is-quoted-string")
		if ns != nil {
			e, d := hcljson.ParseExpression(ns, "x.json")
			if !d.HasErrors() {
				v, vd := e.Value(nil)
				vf.Assert(!vd.HasErrors() && v.AsString() == name, "json-name-range-denotes-name")
			} else {
				vf.Assert(false, "json-name-range-denotes-name")
			}
		}
		es := slice(src, attr.Expr.Range())
		vf.Assert(es != nil, "json-expr-range-in-source")
		if es != nil {
			re, d := hcljson.ParseExpression(es, "x.json")
			vf.Assert(!d.HasErrors(), "json-expr-range-reparses")
			if !d.HasErrors() {
				v1, d1 := attr.Expr.Value(nil)
				v2, d2 := re.Value(nil)
				vf.Assert(d1.HasErrors() == d2.HasErrors() && (d1.HasErrors() || v1.RawEquals(v2)), "json-expr-range-reparse-same-value")
			}
		}
	}
	vf.Reach("ok")
}

// H_RangesGen: tiling, positions and range fidelity for every expression derivable
// from the grammar of package gen (depth bound), in three spacing styles.
func H_RangesGen() {
	sp := vf.Concretize(vf.Choice(3))
	e := gen.Expr(vf.Param("depth", 1), sp)
	src := []byte("a = " + e + "\nblk \"l\" {\n  b = " + e + "\n}\n")
	vf.Observe("src", string(src))
	toks, _ := hclsyntax.LexConfig(src, "g.hcl", hcl.InitialPos)
	checkTiling(src, toks, "gen")
	f, diags := hclsyntax.ParseConfig(src, "g.hcl", hcl.InitialPos)
	if diags.HasErrors() {
		vf.Reach("error")
		return
	}
	checkBodyRanges(src, f.Body.(*hclsyntax.Body))
	vf.Reach("ok")
}
