package c08

import (
	"github.com/hashicorp/hcl/v2"
	"github.com/hashicorp/hcl/v2/hcldec"
	"github.com/hashicorp/hcl/v2/hclsyntax"
	"github.com/zclconf/go-cty/cty"
	"github.com/zclconf/go-cty/cty/function/stdlib"

	"verif/engine/vf"
)

// A body model: attribute a (absent, or a one-letter string) and 0..2 blocks "blk",
// each with an optional label (one symbolic letter) and an optional nested
// attribute x (one-letter string). expected() computes, from the model alone, the
// value and error outcome that the hcldec documentation describes for each spec kind.

type mblock struct {
	label string
	hasX  bool // x is present: a one-letter string, or (xNull) the literal null
	xNull bool
	x     string
}

type model struct {
	hasA   bool // a is present: a one-letter string, the literal null (aKind 2) or the number 7 (aKind 3)
	aKind  int
	a      string
	blocks []mblock
}

func letter() string {
	c := vf.Byte()
	vf.Assume(c-'a' < 3)
	return string([]byte{c})
}

func genModel(labels bool) model {
	var m model
	m.aKind = pick(4)
	if m.aKind > 0 {
		m.hasA = true
		m.a = letter()
	}
	n := pick(3)
	for i := 0; i < n; i++ {
		var b mblock
		if labels {
			b.label = letter()
		}
		switch pick(3) {
		case 1:
			b.hasX = true
			b.x = letter()
		case 2:
			b.hasX, b.xNull = true, true
		}
		m.blocks = append(m.blocks, b)
	}
	return m
}

func (m model) render(labels bool) string {
	src := ""
	switch m.aKind {
	case 1:
		src += "a = \"" + m.a + "\"\n"
	case 2:
		src += "a = null\n"
	case 3:
		src += "a = 7\n"
	}
	for _, b := range m.blocks {
		src += "blk"
		if labels {
			src += " \"" + b.label + "\""
		}
		src += " {\n"
		if b.xNull {
			src += "  x = null\n"
		} else if b.hasX {
			src += "  x = \"" + b.x + "\"\n"
		}
		src += "}\n"
	}
	return src
}

var objX = cty.Object(map[string]cty.Type{"x": cty.String})
var objXK = cty.Object(map[string]cty.Type{"x": cty.String, "k": cty.String})

func (b mblock) obj(withLabel bool) cty.Value {
	x := cty.NullVal(cty.String)
	if b.hasX && !b.xNull {
		x = cty.StringVal(b.x)
	}
	if withLabel {
		return cty.ObjectVal(map[string]cty.Value{"x": x, "k": cty.StringVal(b.label)})
	}
	return cty.ObjectVal(map[string]cty.Value{"x": x})
}

// H_DecodeValue: for bodies that follow the model, Decode reports an error exactly
// when the documentation says so, and otherwise returns exactly the described value.
func H_DecodeValue() {
	kind := pick(13)
	vf.Observe("kind", kind)
	labels := kind == 5 || kind == 6 || kind == 11
	m := genModel(labels)
	src := m.render(labels)
	vf.Observe("src", src)
	f, diags := hclsyntax.ParseConfig([]byte(src), "v.hcl", hcl.InitialPos)
	vf.Assert(!diags.HasErrors(), "model-body-parses")
	nestedX := hcldec.ObjectSpec{"x": &hcldec.AttrSpec{Name: "x", Type: cty.String}}
	n := len(m.blocks)
	aVal := cty.NullVal(cty.String) // absent, or the literal null converted to the attribute's type
	switch m.aKind {
	case 1:
		aVal = cty.StringVal(m.a)
	case 3:
		aVal = cty.StringVal("7") // a number converts to the string type of the spec
	}
	var spec hcldec.Spec
	var want cty.Value
	wantErr := false
	elems := func(withLabel bool) []cty.Value {
		var out []cty.Value
		for _, b := range m.blocks {
			out = append(out, b.obj(withLabel))
		}
		return out
	}
	dupLabels := n == 2 && m.blocks[0].label == m.blocks[1].label
	switch kind {
	case 0:
		req := pick(2) == 1
		spec = &hcldec.AttrSpec{Name: "a", Type: cty.String, Required: req}
		want = aVal
		wantErr = req && !m.hasA
	case 1:
		req := pick(2) == 1
		spec = &hcldec.BlockSpec{TypeName: "blk", Nested: nestedX, Required: req}
		switch n {
		case 0:
			want = cty.NullVal(objX)
			wantErr = req
		case 1:
			want = m.blocks[0].obj(false)
		default:
			wantErr = true
		}
	case 2, 3, 4:
		min, max := vf.Int(0, 2), vf.Int(0, 2)
		wantErr = n < min || (max > 0 && n > max)
		switch kind {
		case 2:
			spec = &hcldec.BlockListSpec{TypeName: "blk", Nested: nestedX, MinItems: min, MaxItems: max}
			if n == 0 {
				want = cty.ListValEmpty(objX)
			} else {
				want = cty.ListVal(elems(false))
			}
		case 3:
			spec = &hcldec.BlockTupleSpec{TypeName: "blk", Nested: nestedX, MinItems: min, MaxItems: max}
			want = cty.TupleVal(elems(false))
		case 4:
			spec = &hcldec.BlockSetSpec{TypeName: "blk", Nested: nestedX, MinItems: min, MaxItems: max}
			if n == 0 {
				want = cty.SetValEmpty(objX)
			} else {
				want = cty.SetVal(elems(false))
			}
		}
	case 5:
		spec = &hcldec.BlockMapSpec{TypeName: "blk", LabelNames: []string{"k"}, Nested: nestedX}
		wantErr = dupLabels
		if n == 0 {
			want = cty.MapValEmpty(objX)
		} else if !dupLabels {
			mv := map[string]cty.Value{}
			for _, b := range m.blocks {
				mv[b.label] = b.obj(false)
			}
			want = cty.MapVal(mv)
		}
	case 6:
		spec = &hcldec.BlockObjectSpec{TypeName: "blk", LabelNames: []string{"k"}, Nested: nestedX}
		wantErr = dupLabels
		if !dupLabels {
			mv := map[string]cty.Value{}
			for _, b := range m.blocks {
				mv[b.label] = b.obj(false)
			}
			want = cty.ObjectVal(mv)
		}
	case 7:
		req := pick(2) == 1
		spec = &hcldec.BlockAttrsSpec{TypeName: "blk", ElementType: cty.String, Required: req}
		switch n {
		case 0:
			want = cty.NullVal(cty.Map(cty.String))
			wantErr = req
		case 1:
			if m.blocks[0].hasX {
				want = cty.MapVal(map[string]cty.Value{"x": m.blocks[0].obj(false).GetAttr("x")})
			} else {
				want = cty.MapValEmpty(cty.String)
			}
		default:
			wantErr = true
		}
	case 8:
		spec = &hcldec.DefaultSpec{Primary: &hcldec.AttrSpec{Name: "a", Type: cty.String}, Default: &hcldec.LiteralSpec{Value: cty.StringVal("dflt")}}
		want = cty.StringVal("dflt") // absent or null
		if !aVal.IsNull() {
			want = aVal
		}
	case 9:
		spec = &hcldec.TransformFuncSpec{Wrapped: &hcldec.DefaultSpec{Primary: &hcldec.AttrSpec{Name: "a", Type: cty.String}, Default: &hcldec.LiteralSpec{Value: cty.StringVal("z")}}, Func: stdlib.UpperFunc}
		want = cty.StringVal("Z")
		switch m.aKind {
		case 1:
			want = cty.StringVal(string([]byte{m.a[0] - 'a' + 'A'}))
		case 3:
			want = cty.StringVal("7")
		}
	case 10:
		spec = hcldec.ObjectSpec{"p": &hcldec.AttrSpec{Name: "a", Type: cty.String}, "q": &hcldec.BlockTupleSpec{TypeName: "blk", Nested: nestedX}, "r": &hcldec.LiteralSpec{Value: cty.NumberIntVal(3)}}
		want = cty.ObjectVal(map[string]cty.Value{"p": aVal, "q": cty.TupleVal(elems(false)), "r": cty.NumberIntVal(3)})
	case 11:
		spec = &hcldec.BlockListSpec{TypeName: "blk", Nested: hcldec.ObjectSpec{"x": &hcldec.AttrSpec{Name: "x", Type: cty.String}, "k": &hcldec.BlockLabelSpec{Index: 0, Name: "k"}}}
		if n == 0 {
			want = cty.ListValEmpty(objXK)
		} else {
			want = cty.ListVal(elems(true))
		}
	default:
		spec = hcldec.TupleSpec{&hcldec.AttrSpec{Name: "a", Type: cty.String}, &hcldec.BlockSetSpec{TypeName: "blk", Nested: nestedX}}
		set := cty.SetValEmpty(objX)
		if n > 0 {
			set = cty.SetVal(elems(false))
		}
		want = cty.TupleVal([]cty.Value{aVal, set})
	}
	// items the spec does not mention make exhaustive decoding fail
	usesA := kind == 0 || kind == 8 || kind == 9 || kind == 10 || kind == 12
	usesBlk := !(kind == 0 || kind == 8 || kind == 9)
	extraneous := (m.hasA && !usesA) || (n > 0 && !usesBlk)
	got, ddiags := hcldec.Decode(f.Body, spec, nil)
	vf.Assert(ddiags.HasErrors() == (wantErr || extraneous), "decode-error-exactly-when-documented")
	pgot, _, pdiags := hcldec.PartialDecode(f.Body, spec, nil)
	vf.Assert(pdiags.HasErrors() == wantErr, "partial-decode-ignores-unrelated-items")
	if !wantErr {
		vf.Assert(pgot.RawEquals(want), "partial-decode-value-is-the-described-one")
		if !extraneous {
			vf.Assert(got.RawEquals(want), "decode-value-is-the-described-one")
		}
		vf.Reach("value")
	} else {
		vf.Reach("error")
	}
}
