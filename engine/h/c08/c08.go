// Package c08: hcldec decoding always yields a value of the specification's implied type.
package c08

import (
	"strings"

	"github.com/hashicorp/hcl/v2"
	"github.com/hashicorp/hcl/v2/ext/dynblock"
	"github.com/hashicorp/hcl/v2/hcldec"
	"github.com/hashicorp/hcl/v2/hclsyntax"
	"github.com/zclconf/go-cty/cty"
	"github.com/zclconf/go-cty/cty/function"
	"github.com/zclconf/go-cty/cty/function/stdlib"

	"verif/engine/vf"
)

func pick(n int) int { return vf.Concretize(vf.Choice(n)) }

// pickN is pick(n), restricted to the first m options in the symbolic-label harness.
func pickN(n, m int) int {
	if symKinds && m < n {
		n = m
	}
	return pick(n)
}

var kindSel int

var symbolicLabels bool

var kindNames = []string{"attr", "block", "blocklist", "blocktuple", "blockset", "blockmap", "blockobject", "blockattrs", "default", "transform", "validate", "refine", "object", "tuple"}

var wrapInList = function.New(&function.Spec{
	Params: []function.Parameter{{Name: "s", Type: cty.String, AllowNull: true, AllowUnknown: true}},
	Type:   function.StaticReturnType(cty.List(cty.String)),
	Impl: func(args []cty.Value, retType cty.Type) (cty.Value, error) {
		return cty.ListVal([]cty.Value{args[0]}), nil
	},
})

var attrTypes = []cty.Type{cty.String, cty.Number, cty.Bool, cty.List(cty.String), cty.DynamicPseudoType}

func attrSpec(name string) hcldec.Spec {
	return &hcldec.AttrSpec{Name: name, Type: attrTypes[pick(len(attrTypes))], Required: pick(2) == 1}
}

// nested is the spec applied inside blocks.
func nested() hcldec.Spec {
	if lean() {
		return []hcldec.Spec{hcldec.ObjectSpec{"x": &hcldec.AttrSpec{Name: "x", Type: cty.String}}, &hcldec.AttrSpec{Name: "x", Type: cty.DynamicPseudoType}}[pick(2)]
	}
	switch pick(4) {
	case 0:
		return hcldec.ObjectSpec{"x": &hcldec.AttrSpec{Name: "x", Type: cty.String}}
	case 1:
		return &hcldec.AttrSpec{Name: "x", Type: cty.DynamicPseudoType}
	case 2:
		return hcldec.ObjectSpec{"x": &hcldec.AttrSpec{Name: "x", Type: cty.Number, Required: true}, "k": &hcldec.BlockLabelSpec{Index: 0, Name: "k"}}
	}
	return hcldec.TupleSpec{&hcldec.AttrSpec{Name: "x", Type: cty.Bool}}
}

func labelsFor(n hcldec.Spec) int {
	if o, ok := n.(hcldec.ObjectSpec); ok {
		if _, has := o["k"]; has {
			return 1
		}
	}
	return 0
}

// topSpec builds one spec of every kind by symbolic choice. needLabels is the
// number of labels the block type "blk" must carry according to the spec.
func topSpec() (s hcldec.Spec, needLabels int) {
	switch {
	case lean():
		// the labelled block collections and the single block only
		kindSel = []int{1, 2, 3, 5, 6}[pick(5)]
	case symKinds:
		kindSel = []int{0, 2, 4, 5, 6, 7, 8}[pick(7)]
	default:
		kindSel = pick(14)
	}
	switch kindSel {
	case 0:
		return attrSpec("a"), 0
	case 1:
		n := nested()
		return &hcldec.BlockSpec{TypeName: "blk", Nested: n, Required: pick(2) == 1}, labelsFor(n)
	case 2:
		n := nested()
		return &hcldec.BlockListSpec{TypeName: "blk", Nested: n, MinItems: minmax(2), MaxItems: minmax(3)}, labelsFor(n)
	case 3:
		n := nested()
		return &hcldec.BlockTupleSpec{TypeName: "blk", Nested: n, MinItems: minmax(2), MaxItems: minmax(3)}, labelsFor(n)
	case 4:
		n := nested()
		return &hcldec.BlockSetSpec{TypeName: "blk", Nested: n, MinItems: minmax(2), MaxItems: minmax(3)}, labelsFor(n)
	case 5:
		nl := 1 + pick(maxLabels())
		names := []string{"k", "k2", "k3"}[:nl]
		var n hcldec.Spec = hcldec.ObjectSpec{"x": &hcldec.AttrSpec{Name: "x", Type: cty.String}}
		if pick(2) == 1 {
			// (a dynamically-typed nested spec is a documented precondition violation for BlockMapSpec)
			n = hcldec.ObjectSpec{"x": &hcldec.AttrSpec{Name: "x", Type: cty.Number}, "y": &hcldec.BlockLabelSpec{Index: 0, Name: "k"}}
		}
		return &hcldec.BlockMapSpec{TypeName: "blk", LabelNames: names, Nested: n}, nl
	case 6:
		nl := 1 + pick(maxLabels())
		names := []string{"k", "k2", "k3"}[:nl]
		return &hcldec.BlockObjectSpec{TypeName: "blk", LabelNames: names, Nested: nested0()}, nl
	case 7:
		return &hcldec.BlockAttrsSpec{TypeName: "blk", ElementType: []cty.Type{cty.String, cty.Number}[pick(2)], Required: pick(2) == 1}, 0
	case 8:
		return &hcldec.DefaultSpec{Primary: &hcldec.AttrSpec{Name: "a", Type: cty.String}, Default: &hcldec.LiteralSpec{Value: cty.StringVal("dflt")}}, 0
	case 9:
		if pick(2) == 0 {
			return &hcldec.TransformFuncSpec{Wrapped: &hcldec.AttrSpec{Name: "a", Type: cty.String}, Func: stdlib.UpperFunc}, 0
		}
		// a transformation that changes the type (string -> list of string)
		return &hcldec.TransformFuncSpec{Wrapped: &hcldec.AttrSpec{Name: "a", Type: cty.String}, Func: wrapInList}, 0
	case 10:
		return &hcldec.ValidateSpec{Wrapped: attrSpec("a"), Func: func(v cty.Value) hcl.Diagnostics {
			if v.IsNull() {
				return hcl.Diagnostics{{Severity: hcl.DiagError, Summary: "null", Detail: "must not be null"}}
			}
			return nil
		}}, 0
	case 11:
		// the refinement must be valid for every value the wrapped spec can produce (documented precondition)
		return &hcldec.RefineValueSpec{Wrapped: &hcldec.DefaultSpec{Primary: &hcldec.AttrSpec{Name: "a", Type: cty.String}, Default: &hcldec.LiteralSpec{Value: cty.StringVal("d")}}, Refine: func(b *cty.RefinementBuilder) *cty.RefinementBuilder { return b.NotNull() }}, 0
	case 12:
		n := nested0()
		return hcldec.ObjectSpec{"p": attrSpec("a"), "q": &hcldec.BlockListSpec{TypeName: "blk", Nested: n}, "r": &hcldec.ExprSpec{Expr: hcl.StaticExpr(cty.NumberIntVal(3), hcl.Range{})}}, 0
	}
	return hcldec.TupleSpec{attrSpec("a"), &hcldec.BlockSpec{TypeName: "blk", Nested: nested0()}}, 0
}

func lean() bool { return vf.Param("lean", 0) == 1 }

// minmax: symbolic item bounds, or none in the lean configuration
func minmax(hi int) int {
	if lean() {
		return 0
	}
	return vf.Int(0, hi)
}

func maxLabels() int { return vf.Param("maxlabels", 2) }

func nested0() hcldec.Spec {
	if pick(2) == 0 {
		return hcldec.ObjectSpec{"x": &hcldec.AttrSpec{Name: "x", Type: cty.String}}
	}
	return &hcldec.AttrSpec{Name: "x", Type: cty.DynamicPseudoType}
}

var attrTexts = []string{"", "a = \"s\"\n", "a = 1\n", "a = [\"x\"]\n", "a = unk\n", "a = null\n"}
var xTexts = []string{"", "x = \"s\"", "x = 1", "x = unk", "x = [1]", "zz = 1"}

// body renders a native body from symbolic choices: attribute a in one of 8 forms,
// 0..2 blocks "blk" with a symbolic number of labels and nested attribute forms.
func body(needLabels int) string {
	src := ""
	if !lean() {
		src = attrTexts[pickN(len(attrTexts), 2)]
	}
	if symbolicLabels && src == attrTexts[1] {
		// string content: one symbolic printable byte
		c := vf.Str(1)
		for i := 0; i < 1; i++ {
			vf.Assume(c[i] >= 0x20 && c[i] < 0x7f && c[i] != '"' && c[i] != '\\' && c[i] != '$' && c[i] != '%')
		}
		src = "a = \"" + c + "\"\n"
	}
	nb := pick(3)
	if symKinds {
		nb = 1 + pick(2)
	}
	first := 0
	for i := 0; i < nb; i++ {
		nl := needLabels
		xi := 0
		if i == 0 {
			if !symKinds && pick(4) == 0 { // occasionally the wrong label count
				nl = pick(3)
			}
			xi = pickN(len(xTexts), 3)
			if lean() {
				xi = 1
			}
			first = xi
		} else {
			// the second block differs from the first one in the type of x
			xi = (first+1)%3 + 1
		}
		src += "blk"
		for j := 0; j < nl; j++ {
			if j == 0 {
				if symbolicLabels {
					// label: one symbolic letter (distinct blocks may or may not collide)
					c := vf.Byte()
					hi := byte('c')
					if lean() {
						hi = 'b'
					}
					vf.Assume(c >= 'a')
					vf.Assume(c <= hi)
					src += ` "` + string([]byte{c}) + `"`
				} else {
					src += []string{` "l1"`, ` "l2"`}[i%2]
				}
			} else if symbolicLabels && vf.Param("symall", 0) == 1 {
				c := vf.Byte()
				vf.Assume(c >= 'a')
				vf.Assume(c <= 'b')
				src += ` "` + string([]byte{c}) + `"`
			} else {
				src += ` "m"`
			}
		}
		if dynBlocks && pick(3) == 0 {
			// the same block generated by a dynamic block whose for_each is unknown
			// (dynKind 0), or known with one element (dynKind 1)
			hdr := src[strings.LastIndex(src, "blk"):]
			src = src[:len(src)-len(hdr)]
			labels := ""
			for _, l := range strings.Fields(hdr[3:]) {
				if labels != "" {
					labels += ", "
				}
				labels += l
			}
			fe := []string{"ul", "[1]"}[pick(2)]
			src += "dynamic \"blk\" {\n  for_each = " + fe + "\n"
			if labels != "" {
				src += "  labels = [" + labels + "]\n"
			}
			src += "  content {\n    " + xTexts[xi] + "\n  }\n}\n"
			continue
		}
		src += " {\n  " + xTexts[xi] + "\n}\n"
	}
	if !symKinds && pick(4) == 0 {
		src += "extra = 1\n"
	}
	return src
}

// H_Decode: every spec kind x perturbed bodies: Decode and PartialDecode return,
// without panicking, a value whose type conforms to ImpliedType (exactly equal
// where the implied type has no dynamic part).
func H_Decode() {
	symbolicLabels = false
	decodeOne()
}

// H_DecodeSym: the block-collection spec kinds with SYMBOLIC label letters (so that
// two blocks may or may not collide), symbolic string content and symbolic Min/Max.
func H_DecodeSym() {
	symbolicLabels = true
	symKinds = true
	decodeOne()
}

var symKinds, dynBlocks bool

func decodeOne() {
	dynBlocks = vf.Param("dyn", 0) == 1
	spec, needLabels := topSpec()
	src := body(needLabels)
	vf.Observe("src", src)
	f, diags := hclsyntax.ParseConfig([]byte(src), "c.hcl", hcl.InitialPos)
	vf.Assert(!diags.HasErrors(), "generated-body-parses")
	if diags.HasErrors() {
		return
	}
	ctx := &hcl.EvalContext{Variables: map[string]cty.Value{"unk": cty.UnknownVal(cty.String), "ul": cty.UnknownVal(cty.List(cty.String))}}
	implied := hcldec.ImpliedType(spec)
	var theBody hcl.Body = f.Body
	if dynBlocks {
		theBody = dynblock.Expand(f.Body, ctx)
	}
	for pass := 0; pass < 2; pass++ {
		var v cty.Value
		var ddiags hcl.Diagnostics
		what := kindNames[kindSel] + ":Decode"
		if pass == 0 {
			v, ddiags = hcldec.Decode(theBody, spec, ctx)
		} else {
			what = kindNames[kindSel] + ":PartialDecode"
			v, _, ddiags = hcldec.PartialDecode(theBody, spec, ctx)
		}
		vf.Assert(v != cty.NilVal, what+":non-nil-value")
		if v == cty.NilVal {
			continue
		}
		errs := v.Type().TestConformance(implied)
		emptyMap2, dynElems := classify(spec)
		known := "C08-empty-multilabel-map-type"
		// the finding: no block of the type contributed, the result is a known empty map
		sig := emptyMap2 && v.IsKnown() && !v.IsNull() && v.Type().IsMapType() && v.LengthInt() == 0
		if !emptyMap2 && dynElems {
			known, sig = "C08-dynamic-collection-collapses", true
		}
		vf.AssertKnown(len(errs) == 0, what+":type-conforms-to-implied-type", known, sig)
		if !implied.HasDynamicTypes() {
			vf.AssertKnown(v.Type().Equals(implied), what+":type-equals-implied-type", known, sig)
		}
		if ddiags.HasErrors() {
			vf.Reach("errors")
		} else {
			vf.Reach("clean")
		}
	}
}

// classify reports whether spec contains a block map with more than one label
// level, and whether it contains a block list/set/map whose nested spec is a
// single dynamically-typed attribute (so that elements can have different types).
func classify(spec hcldec.Spec) (multiLabelMap, dynElems bool) {
	isDyn := func(n hcldec.Spec) bool {
		a, ok := n.(*hcldec.AttrSpec)
		return ok && a.Type == cty.DynamicPseudoType
	}
	switch s := spec.(type) {
	case *hcldec.BlockMapSpec:
		return len(s.LabelNames) > 1, isDyn(s.Nested)
	case *hcldec.BlockListSpec:
		return false, isDyn(s.Nested)
	case *hcldec.BlockSetSpec:
		return false, isDyn(s.Nested)
	case hcldec.ObjectSpec:
		for _, c := range s {
			m, d := classify(c)
			multiLabelMap, dynElems = multiLabelMap || m, dynElems || d
		}
	case hcldec.TupleSpec:
		for _, c := range s {
			m, d := classify(c)
			multiLabelMap, dynElems = multiLabelMap || m, dynElems || d
		}
	}
	return
}
