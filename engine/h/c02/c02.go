// Package c02: native-syntax structure parses to exactly the written attributes and blocks.
package c02

import (
	"github.com/hashicorp/hcl/v2"
	"github.com/hashicorp/hcl/v2/hclsyntax"

	"verif/engine/vf"
)

func pick(n int) int { return vf.Concretize(vf.Choice(n)) }

type label struct {
	text   string // the label's content (what the parser must report)
	quoted bool
}

type item struct {
	isBlock bool
	name    string // attribute name or block type
	labels  []label
	body    []item
	oneLine bool
}

// quote renders a label as a quoted string with the escapes of the spec's string-literal table.
func quote(s string) string {
	out := `"`
	for i := 0; i < len(s); i++ {
		c := s[i]
		switch {
		case c == '"':
			out += `\"`
		case c == '\\':
			out += `\\`
		case c == '\n':
			out += `\n`
		case c == '\r':
			out += `\r`
		case c == '\t':
			out += `\t`
		case (c == '$' || c == '%') && i+1 < len(s) && s[i+1] == '{':
			out += string(c) + string(c)
		default:
			out += string(c)
		}
	}
	return out + `"`
}

func symLabel() label {
	n := vf.Param("llen", 2)
	s := vf.Str(n)
	for i := 0; i < n; i++ {
		if vf.Param("alpha", 0) == 1 {
			// the characters that matter to label escape processing
			c := s[i]
			vf.Assume(c == 'a' || c == '$' || c == '%' || c == '{' || c == '"' || c == '\\' || c == ' ' || c == 'n' || c == '\n' || c == '\r' || c == '\t')
		} else {
			vf.Assume(s[i] >= 0x20 && s[i] < 0x7f)
		}
	}
	return label{text: s, quoted: true}
}

var symUsed int

func genItems(depth int, max int) []item {
	n := pick(max + 1)
	var out []item
	names := []string{"a", "b"}
	for i := 0; i < n; i++ {
		if pick(2) == 0 {
			out = append(out, item{name: names[pick(2)]})
			continue
		}
		// "a" is also an attribute name: attribute names and block types are separate namespaces
		it := item{isBlock: true, name: []string{"blk", "a"}[pick(2)]}
		if vf.Param("simple", 0) == 1 {
			switch pick(5) {
			case 1:
				it.labels = []label{{"bare", false}}
			case 2:
				it.labels = []label{{"q l", true}}
			case 3:
				it.labels = []label{{"bare", false}, {"x${y}", true}}
			case 4:
				it.labels = []label{{"q\\\"", true}, {"b2", false}}
			}
		} else {
			nl := pick(3)
			for j := 0; j < nl; j++ {
				switch pick(3) {
				case 0:
					it.labels = append(it.labels, label{text: "bare", quoted: false})
				case 1:
					it.labels = append(it.labels, label{text: "q l", quoted: true})
				case 2:
					// at most symLabels labels per body have symbolic content
					if symUsed < vf.Param("symlabels", 1) {
						symUsed++
						it.labels = append(it.labels, symLabel())
					} else {
						it.labels = append(it.labels, label{text: "x${y}", quoted: true})
					}
				}
			}
		}
		if depth > 0 {
			switch pick(4) {
			case 0:
			case 1:
				it.body = []item{{name: "c"}}
				it.oneLine = true
			case 2:
				it.body = []item{{name: "c"}, {name: "d"}}
			case 3:
				it.body = []item{{isBlock: true, name: "inner", body: []item{{name: "c"}}}}
			}
		}
		out = append(out, it)
	}
	return out
}

type layout struct {
	nl       string
	indent   string
	comments int // 0 none, 1 '#', 2 '//', 3 '/* */'
	blank    bool
}

func comment(l layout, ownLine bool) string {
	switch l.comments {
	case 1:
		return "# c" + l.nl
	case 2:
		return "// c" + l.nl
	case 3:
		if ownLine {
			return "/* c */" + l.nl
		}
		return "/* c */ "
	}
	return ""
}

func render(items []item, l layout, depth int) string {
	ind := ""
	for i := 0; i < depth; i++ {
		ind += l.indent
	}
	src := ""
	for _, it := range items {
		if l.blank {
			src += l.nl
		}
		if l.comments != 0 {
			src += ind + comment(l, true)
		}
		if !it.isBlock {
			src += ind + it.name + " = 1"
			if l.comments == 1 || l.comments == 2 {
				src += " " + comment(l, false) // the comment carries the newline
			} else {
				src += l.nl
			}
			continue
		}
		src += ind + it.name
		for _, lb := range it.labels {
			if lb.quoted {
				src += " " + quote(lb.text)
			} else {
				src += " " + lb.text
			}
		}
		if l.comments == 3 {
			src += " /* c */"
		}
		switch {
		case len(it.body) == 0:
			if pick(2) == 0 {
				src += " {}" + l.nl
			} else {
				src += " {" + l.nl + ind + "}" + l.nl
			}
		case it.oneLine:
			src += " { " + it.body[0].name + " = 1 }" + l.nl
		default:
			src += " {" + l.nl + render(it.body, l, depth+1) + ind + "}" + l.nl
		}
	}
	return src
}

func hasDup(items []item) bool {
	seen := map[string]bool{}
	for _, it := range items {
		if !it.isBlock {
			if seen[it.name] {
				return true
			}
			seen[it.name] = true
		} else if hasDup(it.body) {
			return true
		}
	}
	return false
}

func matches(b *hclsyntax.Body, items []item) bool {
	na, nb := 0, 0
	for _, it := range items {
		if it.isBlock {
			nb++
		} else {
			na++
		}
	}
	if len(b.Attributes) != na || len(b.Blocks) != nb {
		return false
	}
	bi := 0
	for _, it := range items {
		if !it.isBlock {
			if _, ok := b.Attributes[it.name]; !ok {
				return false
			}
			continue
		}
		blk := b.Blocks[bi]
		bi++
		if blk.Type != it.name || len(blk.Labels) != len(it.labels) {
			return false
		}
		for j, lb := range it.labels {
			if blk.Labels[j] != lb.text {
				return false
			}
		}
		if !matches(blk.Body, it.body) {
			return false
		}
	}
	return true
}

// H_Structure: abstract body trees (attributes, blocks with bare / quoted / symbolic
// labels, nesting, one-line and empty blocks) in every rendering of the layout
// dimensions (LF/CRLF, indentation, blank lines, comment style, BOM, missing
// final newline): parsing succeeds exactly when no attribute is defined twice, and
// exposes exactly the written structure.
func H_Structure() {
	symUsed = 0
	items := genItems(vf.Param("depth", 1), vf.Param("items", 2))
	// one layout dimension at a time is moved away from the plain layout (all pairs in the thorough tier)
	l := layout{nl: "\n", indent: "  "}
	bomOn, noFinalNL := false, false
	vary := func(v int) {
		switch v {
		case 1:
			l.nl = "\r\n"
		case 2:
			l.indent = ""
		case 3:
			l.indent = "\t"
		case 4, 5, 6:
			l.comments = v - 3
		case 7:
			l.blank = true
		case 8:
			bomOn = true
		case 9:
			noFinalNL = true
		case 10, 11: // CRLF together with a line-comment style
			l.nl = "\r\n"
			l.comments = v - 9
		}
	}
	if vf.Param("nolayout", 0) == 0 {
		vary(pick(12))
	}
	if vf.Param("pairs", 0) == 1 {
		vary(pick(12))
	}
	src := render(items, l, 0)
	if bomOn {
		src = "\xEF\xBB\xBF" + src
	}
	if noFinalNL && len(src) >= len(l.nl) && src[len(src)-len(l.nl):] == l.nl {
		// no final newline - but not when the last line is a line comment
		if !(l.comments == 1 || l.comments == 2) || len(items) == 0 || items[len(items)-1].isBlock {
			src = src[:len(src)-len(l.nl)]
		}
	}
	vf.Observe("src", src)
	f, diags := hclsyntax.ParseConfig([]byte(src), "s.hcl", hcl.InitialPos)
	dup := hasDup(items)
	vf.Assert(diags.HasErrors() == dup, "parses-without-error-iff-no-duplicate-attribute")
	if dup {
		vf.Reach("duplicate")
		return
	}
	if !diags.HasErrors() {
		vf.Assert(matches(f.Body.(*hclsyntax.Body), items), "parsed-structure-equals-written-structure")
		vf.Reach("ok")
	}
}
