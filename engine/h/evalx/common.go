// Package evalx: evaluator-level two-run properties (C05 unknown soundness,
// C06 mark propagation, C19 secrecy of diagnostics) over a catalogue of
// expression shapes with symbolic variable contents.
package evalx

import (
	"github.com/hashicorp/hcl/v2"
	"github.com/hashicorp/hcl/v2/hclsyntax"
	"github.com/zclconf/go-cty/cty"
	"github.com/zclconf/go-cty/cty/function"
	"github.com/zclconf/go-cty/cty/function/stdlib"

	"verif/engine/vf"
)

type kind int

const (
	kStr kind = iota
	kBool
	kNum
	kList   // list(string), 2 elements
	kMap    // map(string), keys a,b
	kObj    // object {a = string, b = bool}
	kTup    // tuple [string, bool]
	kKeyObj // (C19 only) a marked object whose attribute NAME is the secret
)

// shape: an expression over the special variable `s` (of kind k) and the public
// variables p, q (strings), b (bool), n (number), l (list), m (map), o (object).
type shape struct {
	src string
	k   kind
}

var catalogue = []shape{
	// bare, unary, binary
	{`s`, kStr}, {`s`, kObj}, {`!s`, kBool}, {`-s`, kNum},
	{`s + 1`, kNum}, {`n - s`, kNum}, {`s * s`, kNum}, {`n / s`, kNum}, {`s % 2`, kNum},
	{`s == p`, kStr}, {`p != s`, kStr}, {`s < n`, kNum}, {`s >= 1`, kNum}, {`s == s`, kList},
	{`s && b`, kBool}, {`b || s`, kBool}, {`s || false`, kBool}, {`false && s`, kBool},
	// conditional: secret as condition, as chosen branch, as unchosen branch
	{`s ? p : q`, kBool}, {`b ? s : q`, kStr}, {`b ? q : s`, kStr}, {`s ? l : []`, kBool}, {`s == p ? 1 : 2`, kStr},
	{`s ? o : null`, kBool}, {`b ? s : o`, kObj},
	// conditions that are abstracted together with s (u is unknown in the abstract run)
	{`u ? 1 : s`, kNum}, {`u ? s : 1`, kNum}, {`u ? s : n`, kNum}, {`u ? s : p`, kStr}, {`u ? "a${s}" : "ab"`, kStr}, {`u ? s : l`, kList}, {`u ? [s] : [s, s]`, kStr},
	// constructors
	{`[s, p]`, kStr}, {`[p, [s]]`, kBool}, {`{a = s}`, kStr}, {`{(s) = p}`, kStr}, {`{"k" : s, x = q}`, kNum},
	// index / attribute / legacy index
	{`l[s]`, kNum}, {`m[s]`, kStr}, {`o[s]`, kStr}, {`s[0]`, kList}, {`s["a"]`, kMap}, {`s.a`, kObj}, {`s.b`, kObj},
	{`s[1]`, kTup}, {`s.0`, kList}, {`[p, q][s]`, kNum}, {`{a = p, b = q}[s]`, kStr}, {`s[n]`, kList},
	// splats
	{`s[*]`, kList}, {`s.*`, kStr}, {`s[*].a`, kObj}, {`[o, s].*.a`, kObj}, {`s[*][0]`, kList},
	// for expressions
	{`[for x in s : x]`, kList}, {`[for x in l : x if s]`, kBool}, {`[for x in l : s]`, kStr},
	{`{for k, v in s : k => v}`, kMap}, {`{for x in l : x => s}`, kNum}, {`{for x in l : s => x...}`, kStr},
	{`[for k, v in s : k]`, kMap}, {`[for x in l : x if x == s]`, kStr}, {`{for x in s : x => 1}`, kList},
	{`[for i, x in s : i]`, kList},
	// function calls
	{`upper(s)`, kStr}, {`cat(p, s)`, kStr}, {`cat(s...)`, kList}, {`length(s)`, kList}, {`length(s)`, kMap}, {`upper(s ? p : q)`, kBool},
	// templates
	{`"a${s}b"`, kStr}, {`"${s}"`, kStr}, {`"${s}"`, kObj}, {`"n=${s}"`, kNum}, {`"%{if s}x%{else}y%{endif}"`, kBool},
	{`"%{for x in s}${x},%{endfor}"`, kList}, {`"%{for x in l}${s}%{endfor}"`, kStr}, {`" ${~ s ~} "`, kStr},
	{`"cafe${s}"`, kStr}, {`"x${s}y${p}"`, kStr},
	{"<<EOT\n${s}\nEOT\n", kStr}, {"<<-EOT\n  a\n  ${s}\n  EOT\n", kStr}, {`"${b ? s : q}"`, kStr},
	// nested combinations
	{`[for x in l : x == s ? p : q]`, kStr}, {`{a = [s]}.a[0]`, kStr}, {`o[s ? "a" : "b"]`, kBool}, {`l[s ? 0 : 1]`, kBool},
	{`(s)`, kStr}, {`[s][0]`, kTup}, {`{a = s}.a.a`, kObj}, {`m[upper(s)]`, kStr},
	// collections with null elements; attribute syntax on a map
	{`mn[s]`, kStr}, {`ln[s]`, kNum}, {`mn[s] == null ? p : q`, kStr}, {`s.a`, kMap}, {`"${s.a}"`, kMap}, {`{k = s}.k.b`, kMap}, {`s[*].a`, kMap},
}

var catFn = function.New(&function.Spec{
	Params:   []function.Parameter{},
	VarParam: &function.Parameter{Name: "parts", Type: cty.String},
	Type:     function.StaticReturnType(cty.String),
	Impl: func(args []cty.Value, retType cty.Type) (cty.Value, error) {
		s := ""
		for _, a := range args {
			s += a.AsString() + "|"
		}
		return cty.StringVal(s), nil
	},
})

var numParamFn = function.New(&function.Spec{
	Params: []function.Parameter{{Name: "n", Type: cty.Number}},
	Type:   function.StaticReturnType(cty.Number),
	Impl:   func(args []cty.Value, retType cty.Type) (cty.Value, error) { return args[0], nil },
})

var funcs = map[string]function.Function{"upper": stdlib.UpperFunc, "length": stdlib.LengthFunc, "cat": catFn, "num": numParamFn}

// content is the symbolic payload of the special variable.
type content struct {
	s1, s2 string
	b      bool
	u      bool // value of the extra condition variable u in concrete runs
	n      int
	null   bool // the whole value is a null of its type (only with param nulls=1)
}

func newContent(slen int) content {
	var c content
	c.s1, c.s2 = vf.Str(slen), vf.Str(slen)
	for i := 0; i < slen; i++ {
		vf.Assume(c.s1[i]-0x20 < 0x5f) // printable ASCII, as one comparison (no short-circuit fork)
		vf.Assume(c.s2[i]-0x20 < 0x5f)
	}
	c.b = vf.Bool()
	c.u = vf.Bool()
	c.n = vf.Choice(4)
	if vf.Param("combining", 0) == 1 && vf.Bool() {
		// content that starts with a combining mark (U+0301), followed by the symbolic bytes
		c.s1 = "\u0301" + c.s1
	}
	if vf.Param("nulls", 0) == 1 {
		c.null = vf.Bool()
	}
	return c
}

var numbers = []cty.Value{cty.NumberIntVal(0), cty.NumberIntVal(1), cty.NumberIntVal(2), cty.NumberFloatVal(1.5)}

func num(i int) cty.Value { return numbers[vf.Concretize(i)] }

// mkVal builds the special variable's value. With placement 0 the whole value is
// the secret: all of its content comes from c and wrap is applied to it. With
// placement 1 only one nested leaf is secret (content from c, wrapped); every
// other part comes from pub, which the two runs of a two-run property share.
func mkVal(k kind, c, pub content, placement int, wrap func(cty.Value) cty.Value) cty.Value {
	if placement == 0 || k == kStr || k == kBool || k == kNum {
		pub = c
		if c.null {
			return wrap(cty.NullVal(typeOf(k)))
		}
	}
	leaf := func(v cty.Value) cty.Value {
		if placement == 1 {
			return wrap(v)
		}
		return v
	}
	var v cty.Value
	switch k {
	case kStr:
		v = cty.StringVal(c.s1)
	case kBool:
		v = cty.BoolVal(c.b)
	case kNum:
		v = num(c.n)
	case kList:
		elems := []cty.Value{leaf(cty.StringVal(c.s1)), cty.StringVal(pub.s2)}
		if placement == 0 && vf.Param("nulls", 0) == 1 {
			// the secret list may also be empty or have a single element
			switch vf.Concretize(c.n) {
			case 0:
				elems = nil
			case 1:
				elems = elems[:1]
			}
		}
		if len(elems) == 0 {
			v = cty.ListValEmpty(cty.String)
		} else {
			v = cty.ListVal(elems)
		}
	case kMap:
		v = cty.MapVal(map[string]cty.Value{"a": leaf(cty.StringVal(c.s1)), "b": cty.StringVal(pub.s2)})
	case kObj:
		v = cty.ObjectVal(map[string]cty.Value{"a": leaf(cty.StringVal(c.s1)), "b": cty.BoolVal(pub.b)})
	case kTup:
		v = cty.TupleVal([]cty.Value{leaf(cty.StringVal(c.s1)), cty.BoolVal(pub.b)})
	}
	if placement == 0 || k == kStr || k == kBool || k == kNum {
		return wrap(v)
	}
	return v
}

func typeOf(k kind) cty.Type {
	switch k {
	case kStr:
		return cty.String
	case kBool:
		return cty.Bool
	case kNum:
		return cty.Number
	case kList:
		return cty.List(cty.String)
	case kMap:
		return cty.Map(cty.String)
	case kObj:
		return cty.Object(map[string]cty.Type{"a": cty.String, "b": cty.Bool})
	}
	return cty.Tuple([]cty.Type{cty.String, cty.Bool})
}

func scope(s cty.Value) *hcl.EvalContext { return scopeU(s, cty.True) }

// scopeU is scope with the extra variable u (a condition that C05 abstracts together with s).
func scopeU(s, u cty.Value) *hcl.EvalContext {
	return &hcl.EvalContext{
		Variables: map[string]cty.Value{
			"s": s,
			"u": u,
			"p": cty.StringVal("a"),
			"q": cty.StringVal("qq"),
			"b": cty.True,
			"n": cty.NumberIntVal(1),
			"l": cty.ListVal([]cty.Value{cty.StringVal("a"), cty.StringVal("y")}),
			"m": cty.MapVal(map[string]cty.Value{"a": cty.StringVal("x"), "A": cty.StringVal("z")}),
			"o": cty.ObjectVal(map[string]cty.Value{"a": cty.StringVal("x"), "b": cty.True}),
			"mn": cty.MapVal(map[string]cty.Value{"a": cty.StringVal("x"), "b": cty.NullVal(cty.String)}),
			"ln": cty.ListVal([]cty.Value{cty.StringVal("x"), cty.NullVal(cty.String)}),
		},
		Functions: funcs,
	}
}

func parse(src string) hclsyntax.Expression {
	e, diags := hclsyntax.ParseExpression([]byte(src), "e.hcl", hcl.InitialPos)
	vf.Assert(!diags.HasErrors(), "catalogue-entry-parses")
	return e
}

func pickShape() (int, shape) {
	lo, hi := vf.Param("from", 0), vf.Param("to", len(catalogue))
	if hi > len(catalogue) {
		hi = len(catalogue)
	}
	i := lo + vf.Concretize(vf.Choice(hi-lo))
	return i, catalogue[i]
}
