package evalx

import (
	"github.com/hashicorp/hcl/v2"
	"github.com/hashicorp/hcl/v2/ext/dynblock"
	"github.com/hashicorp/hcl/v2/hcldec"
	"github.com/hashicorp/hcl/v2/hclsyntax"
	hcljson "github.com/hashicorp/hcl/v2/json"
	"github.com/zclconf/go-cty/cty"

	"verif/engine/vf"
)

// Expressions for the dependency-set property: free variables, variables bound by
// for expressions / template for directives (also shadowing a free name), splats,
// object keys (bare, parenthesised, template), nested scopes.
var depCatalogue = []string{
	`s`, `p`, `s + n`, `b ? s : p`, `b ? p : s`, `[s, p, q]`, `{a = s, (p) = q}`, `{s = p}`, `{"${s}" = p}`,
	`l[n]`, `m[s]`, `o.a`, `o[s]`, `l.*`, `l[*]`, `[o, o].*.a`, `s.a.b`,
	`[for x in l : x]`, `[for s in l : s]`, `[for x in l : s]`, `[for s in l : s if s == p]`, `[for x in s : x if b]`,
	`{for k, v in m : k => v}`, `{for s, p in m : s => p}`, `{for k, v in m : s => v...}`, `{for k, v in s : k => q}`,
	`[for x in l : [for y in l : "${x}${y}${s}"]]`, `[for x in l : [for x in m : x]]`,
	`upper(s)`, `cat(p, q, s)`, `cat(l...)`,
	`"a${s}b${p}"`, `"%{for x in l}${x}${s}%{endfor}"`, `"%{for s in l}${s}%{endfor}${q}"`, `"%{if b}${s}%{else}${p}%{endif}"`,
	"<<EOT\n${s} and ${q}\nEOT\n", `"%{for k, v in m}${k}=${v}%{endfor}"`,
	`l[*][n]`, `[o, o][*].a[n]`, `[l, l][*][s]`,
	`b && s == p`, `!b || q == s`, `-n + (n * n)`, `[for x in [s] : x][0]`, `{for x in [p, q] : x => s}`,
}

var allNames = []string{"s", "p", "q", "b", "n", "l", "m", "o"}

func restrict(ctx *hcl.EvalContext, keep map[string]bool) *hcl.EvalContext {
	vars := map[string]cty.Value{}
	for k, v := range ctx.Variables {
		if keep[k] {
			vars[k] = v
		}
	}
	return &hcl.EvalContext{Variables: vars, Functions: ctx.Functions}
}

func sameDiags(a, b hcl.Diagnostics) bool {
	if len(a) != len(b) {
		return false
	}
	for i := range a {
		if a[i].Summary != b[i].Summary || a[i].Severity != b[i].Severity {
			return false
		}
		if (a[i].Subject == nil) != (b[i].Subject == nil) {
			return false
		}
		if a[i].Subject != nil && *a[i].Subject != *b[i].Subject {
			return false
		}
	}
	return true
}

func sameOutcome(v1 cty.Value, d1 hcl.Diagnostics, v2 cty.Value, d2 hcl.Diagnostics) bool {
	if !sameDiags(d1, d2) {
		return false
	}
	if d1.HasErrors() {
		return true
	}
	return v1.RawEquals(v2)
}

// depCheck: (1) evaluation in the scope restricted to the reported root names gives
// the identical value and diagnostics; (2) changing a variable that is NOT reported
// (to a second symbolic content) never changes the outcome.
func depCheck(e hcl.Expression, tag string, sval cty.Value, sval2 cty.Value) {
	full := scope(sval)
	reported := map[string]bool{}
	for _, tr := range e.Variables() {
		reported[tr.RootName()] = true
	}
	v1, d1 := e.Value(full)
	v2, d2 := e.Value(restrict(full, reported))
	vf.Assert(sameOutcome(v1, d1, v2, d2), "reported-variables-suffice: "+tag)
	if !reported["s"] {
		v3, d3 := e.Value(scope(sval2))
		vf.Assert(sameOutcome(v1, d1, v3, d3), "unreported-variable-is-irrelevant: "+tag)
		vf.Reach("s-not-reported")
	} else {
		vf.Reach("s-reported")
	}
}

// H_Deps (C07), native expressions and templates.
func H_Deps() {
	i := vf.Concretize(vf.Choice(len(depCatalogue)))
	src := depCatalogue[i]
	vf.Observe("expr", i)
	e := parse(src)
	c1, c2 := newContent(vf.Param("slen", 1)), newContent(vf.Param("slen", 1))
	k := kind(vf.Concretize(vf.Choice(3)))
	if k == 2 {
		k = kObj
	}
	id := func(v cty.Value) cty.Value { return v }
	depCheck(e, src, mkVal(k, c1, c1, 0, id), mkVal(k, c2, c2, 0, id))
}

var jsonDepCatalogue = []string{
	`"${s}"`, `"a${p}b"`, `"plain"`, `"$${s}"`, `["${s}", "${p}"]`, `{"${s}": "${p}"}`, `{"k": "${q}", "${p}": 1}`,
	`"%{for x in l}${x}${s}%{endfor}"`, `"%{for s in l}${s}%{endfor}"`, `{"a": {"b": ["${s}"]}}`, `true`, `"${upper(s)}"`, `"${[for s in l : s]}"`,
}

// H_DepsJSON (C07), JSON expressions: strings as templates, object keys as templates.
func H_DepsJSON() {
	i := vf.Concretize(vf.Choice(len(jsonDepCatalogue)))
	src := jsonDepCatalogue[i]
	vf.Observe("expr", i)
	e, diags := hcljson.ParseExpression([]byte(src), "e.json")
	vf.Assert(!diags.HasErrors(), "json-catalogue-entry-parses")
	c1, c2 := newContent(vf.Param("slen", 1)), newContent(vf.Param("slen", 1))
	id := func(v cty.Value) cty.Value { return v }
	depCheck(e, src, mkVal(kStr, c1, c1, 0, id), mkVal(kStr, c2, c2, 0, id))
}

var depBodies = []string{
	"a = s\nblk {\n  x = p\n}\n",
	"a = q\nblk {\n  x = s\n}\nblk {\n  x = \"${p}\"\n}\n",
	"dynamic \"blk\" {\n  for_each = l\n  content {\n    x = \"${blk.value}${s}\"\n  }\n}\n",
	"dynamic \"blk\" {\n  for_each = m\n  iterator = it\n  content {\n    x = it.key\n  }\n}\na = p\n",
	"dynamic \"blk\" {\n  for_each = [s]\n  iterator = s\n  content {\n    x = s.value\n  }\n}\n",
	"dynamic \"blk\" {\n  for_each = l\n  content {\n    x = q\n    dynamic \"inner\" {\n      for_each = [blk.value, s]\n      content {\n        y = \"${inner.value}${blk.key}\"\n      }\n    }\n  }\n}\n",
	"blk {\n  dynamic \"inner\" {\n    for_each = m\n    content {\n      y = inner.key\n    }\n  }\n  x = s\n}\n",
	// the iterator has the name of a global variable that its own for_each (where the iterator is not in scope) refers to
	"dynamic \"blk\" {\n  for_each = l\n  iterator = l\n  content {\n    x = l.value\n  }\n}\n",
	"blk {\n  dynamic \"inner\" {\n    for_each = [for k, v in m : \"${k}${s}\"]\n    iterator = m\n    content {\n      y = m.value\n    }\n  }\n}\n",
	"dynamic \"blk\" {\n  for_each = [s]\n  iterator = s\n  labels = []\n  content {\n    x = \"${s.value}${q}\"\n  }\n}\n",
}

var depSpec = hcldec.ObjectSpec{
	"a": &hcldec.AttrSpec{Name: "a", Type: cty.String},
	"blks": &hcldec.BlockListSpec{TypeName: "blk", Nested: hcldec.ObjectSpec{
		"x": &hcldec.AttrSpec{Name: "x", Type: cty.String},
		"inner": &hcldec.BlockListSpec{TypeName: "inner", Nested: hcldec.ObjectSpec{
			"y": &hcldec.AttrSpec{Name: "y", Type: cty.String},
		}},
	}},
}

// H_DepsBody (C07), bodies under a decoding specification, with dynamic blocks:
// hcldec.Variables / dynblock.VariablesHCLDec are sufficient to decode (after
// expansion, whose own needs are dynblock.ExpandVariablesHCLDec), and iterator
// names are not reported.
func H_DepsBody() {
	i := vf.Concretize(vf.Choice(len(depBodies)))
	vf.Observe("body", i)
	f, diags := hclsyntax.ParseConfig([]byte(depBodies[i]), "b.hcl", hcl.InitialPos)
	vf.Assert(!diags.HasErrors(), "body-catalogue-entry-parses")
	c1, c2 := newContent(vf.Param("slen", 1)), newContent(vf.Param("slen", 1))
	id := func(v cty.Value) cty.Value { return v }
	s1, s2 := mkVal(kStr, c1, c1, 0, id), mkVal(kStr, c2, c2, 0, id)
	full := scope(s1)
	tag := depBodies[i]

	reported := map[string]bool{}
	for _, tr := range dynblock.ExpandVariablesHCLDec(f.Body, depSpec) {
		reported[tr.RootName()] = true
	}
	for _, tr := range dynblock.VariablesHCLDec(f.Body, depSpec) {
		reported[tr.RootName()] = true
	}
	for _, n := range []string{"blk", "inner", "it"} {
		vf.Assert(!reported[n], "iterator-name-not-reported: "+tag)
	}
	v1, d1 := hcldec.Decode(dynblock.Expand(f.Body, full), depSpec, full)
	small := restrict(full, reported)
	v2, d2 := hcldec.Decode(dynblock.Expand(f.Body, small), depSpec, small)
	vf.Assert(sameOutcome(v1, d1, v2, d2), "reported-variables-suffice: "+tag)
	if !reported["s"] {
		other := scope(s2)
		v3, d3 := hcldec.Decode(dynblock.Expand(f.Body, other), depSpec, other)
		vf.Assert(sameOutcome(v1, d1, v3, d3), "unreported-variable-is-irrelevant: "+tag)
		vf.Reach("s-not-reported")
	} else {
		vf.Reach("s-reported")
	}
	// static bodies: hcldec.Variables alone
	if i < 2 {
		rep := map[string]bool{}
		for _, tr := range hcldec.Variables(f.Body, depSpec) {
			rep[tr.RootName()] = true
		}
		sm := restrict(full, rep)
		v4, d4 := hcldec.Decode(f.Body, depSpec, sm)
		v5, d5 := hcldec.Decode(f.Body, depSpec, full)
		vf.Assert(sameOutcome(v5, d5, v4, d4), "hcldec.Variables-suffice: "+tag)
	}
}
