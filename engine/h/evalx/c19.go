package evalx

import (
	"bytes"
	"strings"

	"github.com/hashicorp/hcl/v2"
	"github.com/hashicorp/hcl/v2/ext/dynblock"
	"github.com/hashicorp/hcl/v2/hcldec"
	"github.com/hashicorp/hcl/v2/hclsyntax"
	hcljson "github.com/hashicorp/hcl/v2/json"
	"github.com/zclconf/go-cty/cty"

	"verif/engine/vf"
)

// Erroneous (or potentially erroneous) shapes. The secret is a marked string of
// 4 symbolic bytes over {J,Q,X,Z} - no English diagnostic contains such a
// 4-gram by coincidence, so "the message contains the secret" is a leak.
var errCatalogue = []shape{
	{`l[s]`, kStr}, {`m[s]`, kStr}, {`o[s]`, kStr}, {`[p, q][s]`, kStr}, {`{a = p}[s]`, kStr},
	{`s[0]`, kStr}, {`s.foo`, kStr}, {`s[*].x`, kStr}, {`s.0`, kStr},
	{`s + 1`, kStr}, {`1 - s`, kStr}, {`-s`, kStr}, {`!s`, kStr}, {`s && b`, kStr}, {`s < 1`, kStr},
	{`s ? 1 : 2`, kStr}, {`b ? s : [1]`, kStr}, {`b ? {(s) = 1} : {x = "y", z = 2}`, kStr},
	{`{(s) = 1, (s) = 2}`, kStr}, {`{for x in [s, s] : x => 1}`, kStr}, {`{for x in [1, 2] : s => x}`, kStr},
	{`{for k, v in {(s) = 1} : v => k if k}`, kStr},
	{`[for x in s : x]`, kStr}, {`[for x in l : x if s]`, kStr}, {`{for x in l : x => 1 if s}`, kStr},
	{`upper(s, s)`, kStr}, {`length(s)`, kStr}, {`num(s)`, kStr}, {`nosuch(s)`, kStr}, {`cat(s...)`, kStr}, {`upper(l...)`, kStr},
	{`"${s}" + 1`, kStr}, {`"%{if s}x%{endif}"`, kStr}, {`"%{for x in s}${x}%{endfor}"`, kStr},
	{`s.a.b`, kMap}, {`s["zz"]`, kMap}, {`s[5]`, kList}, {`s[s]`, kList}, {`m[s[0]]`, kList}, {`o[s[0]]`, kList}, {`l[s.a]`, kObj},
	{`s.nope`, kObj}, {`s == {a = 1}`, kObj}, {`null[s]`, kStr}, {`s[null]`, kMap}, {`o[null] == s`, kStr},
	{`[for x in s : x.foo]`, kList}, {`[for k, v in s : upper(k, v)]`, kMap}, {`{for k, v in s : k => v.nope}`, kMap},
	{`[for x in s : x + 1]`, kTup}, {`"%{for x in s}${x.y}%{endfor}"`, kList},
	{`b ? {(s) = 1} : {x = [1]}`, kStr}, {`b ? [{(s) = 1}] : [{x = "y"}, 2]`, kStr}, {`b ? [{(s) = 1}] : [{x = []}]`, kStr}, {`b ? {k = {(s) = 1}} : {k = {x = []}}`, kStr}, {`[for v in [{(s) = 1}] : v.nope]`, kStr},
	// the secret as the only attribute NAME of a marked object in scope
	{`s.nope`, kKeyObj}, {`s[0]`, kKeyObj}, {`s + 1`, kKeyObj}, {`l[s]`, kKeyObj}, {`upper(s)`, kKeyObj}, {`s ? 1 : 2`, kKeyObj},
	{`"${s}"`, kKeyObj}, {`[s, p].x`, kKeyObj}, {`b ? s : [1]`, kKeyObj}, {`s == p ? nosuch : 1`, kKeyObj},
	{`{a = s}.b`, kStr}, {`[s].x`, kStr}, {`{(s) = 1}.nope`, kStr}, {`{(s) = 1}[0]`, kStr},
}

func secretString() string {
	s := vf.Str(4)
	for i := 0; i < 4; i++ {
		vf.Assume(s[i] == 'J' || s[i] == 'Q' || s[i] == 'X' || s[i] == 'Z')
	}
	return s
}

func leak(text, secret string) bool { return strings.Contains(text, secret) }

// H_Secrecy (C19): no diagnostic summary/detail, and no text rendering of a
// diagnostic, contains the content of a string that entered the evaluation only
// inside a marked value (directly, nested, or as a map key).
func H_Secrecy() {
	lo, hi := vf.Param("from", 0), vf.Param("to", len(errCatalogue))
	if hi > len(errCatalogue) {
		hi = len(errCatalogue)
	}
	i := lo + vf.Concretize(vf.Choice(hi-lo))
	sh := errCatalogue[i]
	secret := secretString()
	c := content{s1: secret, s2: "pub", b: true, n: 1}
	placement := vf.Concretize(vf.Choice(2))
	mark := func(v cty.Value) cty.Value { return v.Mark("sensitive") }
	var sv cty.Value
	if sh.k == kKeyObj {
		sv = cty.ObjectVal(map[string]cty.Value{secret: cty.StringVal("v")}).Mark("sensitive")
		if placement == 1 {
			// ... nested in an unmarked tuple-typed variable is not expressible here; two attributes instead
			sv = cty.ObjectVal(map[string]cty.Value{secret: cty.StringVal("v"), "b": cty.True}).Mark("sensitive")
		}
	} else if sh.k == kMap && placement == 1 {
		// the secret as a map KEY of a marked map
		sv = cty.MapVal(map[string]cty.Value{secret: cty.StringVal("v"), "b": cty.StringVal("w")}).Mark("sensitive")
	} else {
		sv = mkVal(sh.k, c, c, placement, mark)
	}
	vf.Observe("shape", i)
	vf.Observe("placement", placement)
	e := parse(sh.src)
	ctx := scope(sv)
	_, diags := e.Value(ctx)
	if !diags.HasErrors() {
		vf.Reach("no-error")
		return
	}
	vf.Reach("error")
	dupKey := strings.Contains(sh.src, `(s) = 1, (s) = 2`) || strings.Contains(sh.src, `for x in [s, s] : x =>`) || strings.Contains(sh.src, `for x in [1, 2] : s =>`)
	for _, d := range diags {
		bad := leak(d.Summary, secret) || leak(d.Detail, secret)
		vf.AssertKnown(!bad, "diagnostic-leaks-secret: "+sh.src, "C19-duplicate-object-key", dupKey)
	}
	// finding of record: an error raised inside an iteration of a 'for' expression (or template
	// for directive) over a marked collection refers to the iteration variables, which are unmarked there
	forIter := (strings.Contains(sh.src, "for k, v in {(s)") || strings.Contains(sh.src, "for x in s") || strings.Contains(sh.src, "for k, v in s")) && sh.k != kStr
	// text rendering with source snippet and the "with ..." variable summary
	var buf bytes.Buffer
	files := map[string]*hcl.File{"e.hcl": {Bytes: []byte(sh.src)}}
	w := hcl.NewDiagnosticTextWriter(&buf, files, 78, false)
	err := w.WriteDiagnostics(diags)
	vf.Assert(err == nil, "text-writer-succeeds")
	if forIter || sh.src == "{for k, v in {(s) = 1} : v => k if k}" {
		vf.AssertKnown(!leak(buf.String(), secret), "rendered-diagnostic-leaks-secret: "+sh.src, "C19-for-iteration-variables", true)
	} else {
		vf.AssertKnown(!leak(buf.String(), secret), "rendered-diagnostic-leaks-secret: "+sh.src, "C19-duplicate-object-key", dupKey)
	}
}

var secrecyBodies = []struct {
	json bool
	src  string
}{
	{true, `{"a": {"${s}": 1, "${s}": 2}}`},
	{true, `{"a": "${l[s]}"}`},
	{true, `{"a": ["${s + 1}"]}`},
	{false, "a = {(s) = \"plenty\"}\n"},
	{false, "a = {outer = {(s) = [\"x\"]}}\n"},
	{false, "a = s\n"},
	{false, "dynamic \"blk\" {\n  for_each = [1]\n  labels = [s, s]\n  content {}\n}\n"},
	{false, "dynamic \"blk\" {\n  for_each = s\n  content {}\n}\n"},
	{false, "blk {\n  x = [s]\n}\n"},
	// errors raised in the content of a block generated from a MARKED collection (so = marked list of {a = secret})
	{false, "dynamic \"blk\" {\n  for_each = so\n  content {\n    x = blk.value.a + 1\n  }\n}\n"},
	{false, "dynamic \"blk\" {\n  for_each = so\n  content {\n    x = upper(blk.value)\n  }\n}\n"},
	{false, "dynamic \"blk\" {\n  for_each = {(s) = 1}\n  content {\n    x = blk.key.nope\n  }\n}\n"},
}

// H_SecrecyBody (C19, bodies): JSON expressions, hcldec attribute conversion errors and
// dynamic-block label/for_each errors with a marked secret.
func H_SecrecyBody() {
	bi := vf.Concretize(vf.Choice(len(secrecyBodies)))
	sb := secrecyBodies[bi]
	secret := secretString()
	vf.Observe("body", bi)
	ctx := scope(cty.StringVal(secret).Mark("sensitive"))
	ctx.Variables["so"] = cty.ListVal([]cty.Value{cty.ObjectVal(map[string]cty.Value{"a": cty.StringVal(secret)})}).Mark("sensitive")
	var body hcl.Body
	if sb.json {
		f, diags := hcljson.Parse([]byte(sb.src), "b.json")
		vf.Assert(!diags.HasErrors(), "body-parses")
		body = f.Body
	} else {
		f, diags := hclsyntax.ParseConfig([]byte(sb.src), "b.hcl", hcl.InitialPos)
		vf.Assert(!diags.HasErrors(), "body-parses")
		body = f.Body
	}
	specs := []hcldec.Spec{
		hcldec.ObjectSpec{"a": &hcldec.AttrSpec{Name: "a", Type: cty.Map(cty.Number)}, "blks": &hcldec.BlockMapSpec{TypeName: "blk", LabelNames: []string{"k"}, Nested: hcldec.ObjectSpec{"x": &hcldec.AttrSpec{Name: "x", Type: cty.List(cty.Bool)}}}},
		hcldec.ObjectSpec{"a": &hcldec.AttrSpec{Name: "a", Type: cty.Map(cty.Map(cty.Bool))}, "blks": &hcldec.BlockListSpec{TypeName: "blk", Nested: hcldec.ObjectSpec{"x": &hcldec.AttrSpec{Name: "x", Type: cty.Number}}}},
	}
	spec := specs[vf.Concretize(vf.Choice(len(specs)))]
	_, diags := hcldec.Decode(dynblock.Expand(body, ctx), spec, ctx)
	if !diags.HasErrors() {
		vf.Reach("no-error")
		return
	}
	vf.Reach("error")
	var buf bytes.Buffer
	w := hcl.NewDiagnosticTextWriter(&buf, map[string]*hcl.File{}, 78, false)
	_ = w.WriteDiagnostics(diags)
	for _, d := range diags {
		bad := leak(d.Summary, secret) || leak(d.Detail, secret)
		vf.Assert(!bad, "diagnostic-leaks-secret: "+sb.src)
	}
	vf.Assert(!leak(buf.String(), secret), "rendered-diagnostic-leaks-secret: "+sb.src)
}

// H_SecrecyGen (C19): grammar-generated expressions (c07gen.go: mostly ill-typed, so
// most of them fail) with the marked secret as s; no diagnostic may contain it.
func H_SecrecyGen() {
	g := &dgen{leaves: []string{"s", "x", "l"}, deepLeft: vf.Param("deep", 1)}
	src := g.expr(vf.Param("depth", 2))
	vf.Assume(strings.Contains(src, "s"))
	vf.Observe("src", src)
	e := parse(src)
	// one symbolic byte (four values) after a fixed prefix: the expression, not the content, is what varies here
	last := vf.Str(1)
	vf.Assume(last[0] == 'J' || last[0] == 'Q' || last[0] == 'X' || last[0] == 'Z')
	secret := "JQX" + last
	ctx := scopeX(cty.StringVal(secret).Mark("sensitive"))
	_, diags := e.Value(ctx)
	if !diags.HasErrors() {
		vf.Reach("no-error")
		return
	}
	vf.Reach("error")
	for _, d := range diags {
		vf.Assert(!leak(d.Summary, secret) && !leak(d.Detail, secret), "diagnostic-leaks-secret")
	}
	var buf bytes.Buffer
	w := hcl.NewDiagnosticTextWriter(&buf, map[string]*hcl.File{"e.hcl": {Bytes: []byte(src)}}, 78, false)
	_ = w.WriteDiagnostics(diags)
	// finding of record: iteration variables of a 'for' over a collection that carries the mark as a whole
	forIter := strings.Contains(src, "for") && strings.Contains(src, "{(")
	vf.AssertKnown(!leak(buf.String(), secret), "rendered-diagnostic-leaks-secret", "C19-for-iteration-variables", forIter)
}
