package evalx

import (
	"github.com/hashicorp/hcl/v2"
	"github.com/hashicorp/hcl/v2/ext/dynblock"
	"github.com/hashicorp/hcl/v2/hcldec"
	"github.com/hashicorp/hcl/v2/hclsyntax"
	"github.com/zclconf/go-cty/cty"

	"verif/engine/vf"
)

// H_Marks (C06): two evaluations that differ only in the CONTENT of the marked
// variable; if the error-free results differ, both must carry the mark.
func H_Marks() {
	slen := vf.Param("slen", 1)
	i, sh := pickShape()
	placement := vf.Concretize(vf.Choice(2))
	c1, c2 := newContent(slen), newContent(slen)
	mark := func(v cty.Value) cty.Value { return v.Mark("secret") }
	v1, v2 := mkVal(sh.k, c1, c1, placement, mark), mkVal(sh.k, c2, c1, placement, mark)
	e := parse(sh.src)
	vf.Observe("shape", i)
	vf.Observe("placement", placement)
	r1, d1 := e.Value(scope(v1))
	r2, d2 := e.Value(scope(v2))
	if d1.HasErrors() || d2.HasErrors() {
		vf.Reach("error")
		return
	}
	u1, _ := r1.UnmarkDeep()
	u2, _ := r2.UnmarkDeep()
	same := u1.RawEquals(u2)
	// finding of record: indexing an OBJECT (static attribute set) with a key derived from the marked value
	objIndexByMarkedKey := sh.src == `o[s]` || sh.src == `{a = p, b = q}[s]` || sh.src == `o[s ? "a" : "b"]`
	vf.AssertKnown(same || (r1.ContainsMarked() && r2.ContainsMarked()), "mark-lost: "+sh.src, "C06-object-index-marked-key", objIndexByMarkedKey)
	if same {
		vf.Reach("same")
	} else {
		vf.Reach("differ")
	}
}

var markBodies = []struct {
	src string
	k   kind
}{
	{"a = s\n", kStr},
	{"a = \"${s}!\"\nblk {\n  x = p\n}\n", kStr},
	{"blk {\n  x = s\n}\n", kStr},
	{"dynamic \"blk\" {\n  for_each = [s, p]\n  content {\n    x = blk.value\n  }\n}\n", kStr},
	{"dynamic \"blk\" {\n  for_each = s\n  content {\n    x = blk.value\n  }\n}\n", kList},
	{"dynamic \"blk\" {\n  for_each = s\n  content {\n    x = p\n    y = blk.key\n  }\n}\n", kList},
	{"dynamic \"blk\" {\n  for_each = s\n  iterator = it\n  content {\n    x = \"${it.key}=${it.value}\"\n  }\n}\n", kMap},
	{"dynamic \"blk\" {\n  for_each = l\n  content {\n    x = s\n  }\n}\n", kStr},
	{"blk {\n  x = p\n  dynamic \"inner\" {\n    for_each = s\n    content {\n      z = inner.value\n    }\n  }\n}\n", kList},
	{"dynamic \"blk\" {\n  for_each = s ? l : []\n  content {\n    x = blk.value\n  }\n}\n", kBool},
	// generated blocks without arguments of their own: only their number depends on the marked value
	{"dynamic \"blk\" {\n  for_each = s\n  content {}\n}\n", kList},
	{"dynamic \"blk\" {\n  for_each = s\n  content {\n    inner {\n      z = p\n    }\n  }\n}\n", kList},
	// a STATIC block nested in the generated block refers to the iterator
	{"dynamic \"blk\" {\n  for_each = s\n  content {\n    inner {\n      z = blk.value\n    }\n  }\n}\n", kList},
	{"dynamic \"blk\" {\n  for_each = s\n  content {\n    inner {\n      z = \"${blk.key}${blk.value}\"\n    }\n    inner {\n      z = q\n    }\n  }\n}\n", kMap},
	// a nested dynamic block whose for_each derives from the outer (marked) iterator
	{"dynamic \"blk\" {\n  for_each = s\n  content {\n    dynamic \"inner\" {\n      for_each = [blk.value]\n      content {\n        z = inner.value\n      }\n    }\n  }\n}\n", kList},
}

// bodies with LABELLED blocks, decoded with BlockMapSpec / BlockObjectSpec
var markLabelBodies = []struct {
	src string
	k   kind
}{
	{"dynamic \"lb\" {\n  for_each = s\n  labels = [lb.key]\n  content {}\n}\n", kList},
	{"dynamic \"lb\" {\n  for_each = s\n  labels = [\"k${lb.key}\"]\n  content {\n    inner {\n      z = p\n    }\n  }\n}\n", kList},
	{"dynamic \"lb\" {\n  for_each = s\n  labels = [lb.key]\n  content {\n    x = lb.value\n  }\n}\n", kMap},
	{"dynamic \"lb\" {\n  for_each = s\n  labels = [lb.value]\n  content {}\n}\n", kList},
	{"lb \"a\" {\n  x = s\n}\nlb \"b\" {\n}\n", kStr},
	{"dynamic \"lb\" {\n  for_each = s ? l : [p]\n  labels = [lb.value]\n  content {}\n}\n", kBool},
}

var markLabelNested = hcldec.ObjectSpec{
	"x":     &hcldec.AttrSpec{Name: "x", Type: cty.String},
	"inner": &hcldec.BlockListSpec{TypeName: "inner", Nested: hcldec.ObjectSpec{"z": &hcldec.AttrSpec{Name: "z", Type: cty.String}}},
}

// H_MarksLabelled (C06, labelled blocks): as H_MarksBody for blocks collected
// by label into a map or an object.
func H_MarksLabelled() {
	slen := vf.Param("slen", 1)
	bi := vf.Concretize(vf.Choice(len(markLabelBodies)))
	mb := markLabelBodies[bi]
	var spec hcldec.Spec = &hcldec.BlockMapSpec{TypeName: "lb", LabelNames: []string{"k"}, Nested: markLabelNested}
	if vf.Concretize(vf.Choice(2)) == 1 {
		spec = &hcldec.BlockObjectSpec{TypeName: "lb", LabelNames: []string{"k"}, Nested: markLabelNested}
	}
	vf.Observe("body", bi)
	c1, c2 := newContent(slen), newContent(slen)
	mark := func(v cty.Value) cty.Value { return v.Mark("secret") }
	v1, v2 := mkVal(mb.k, c1, c1, 0, mark), mkVal(mb.k, c2, c1, 0, mark)
	dec := func(sval cty.Value) (cty.Value, bool) {
		f, diags := hclsyntax.ParseConfig([]byte(mb.src), "m.hcl", hcl.InitialPos)
		vf.Assert(!diags.HasErrors(), "body-catalogue-entry-parses")
		ctx := scope(sval)
		v, d := hcldec.Decode(dynblock.Expand(f.Body, ctx), spec, ctx)
		return v, d.HasErrors()
	}
	r1, e1 := dec(v1)
	r2, e2 := dec(v2)
	if e1 || e2 {
		vf.Reach("error")
		return
	}
	u1, _ := r1.UnmarkDeep()
	u2, _ := r2.UnmarkDeep()
	same := u1.RawEquals(u2)
	emptyForEach := mb.k == kList && (vf.Concretize(c1.n) == 0 || vf.Concretize(c2.n) == 0)
	vf.AssertKnown(same || (r1.ContainsMarked() && r2.ContainsMarked()), "mark-lost-in-decoding: "+mb.src, "C06-empty-marked-for_each", emptyForEach)
	if !same {
		vf.Reach("differ")
	}
	vf.Reach("done")
}

var markSpecA = hcldec.ObjectSpec{
	"a": &hcldec.AttrSpec{Name: "a", Type: cty.String},
}

var markBlkNested = hcldec.ObjectSpec{
	"x":     &hcldec.AttrSpec{Name: "x", Type: cty.String},
	"y":     &hcldec.AttrSpec{Name: "y", Type: cty.DynamicPseudoType},
	"inner": &hcldec.BlockListSpec{TypeName: "inner", Nested: hcldec.ObjectSpec{"z": &hcldec.AttrSpec{Name: "z", Type: cty.String}}},
}

func markSpecB(which int) hcldec.Spec {
	switch which {
	case 0:
		return hcldec.ObjectSpec{"blks": &hcldec.BlockListSpec{TypeName: "blk", Nested: markBlkNested}}
	case 1:
		return hcldec.ObjectSpec{"blks": &hcldec.BlockTupleSpec{TypeName: "blk", Nested: markBlkNested}}
	case 2:
		return hcldec.ObjectSpec{"blks": &hcldec.BlockSetSpec{TypeName: "blk", Nested: markBlkNested}}
	}
	return hcldec.ObjectSpec{"blk": &hcldec.BlockSpec{TypeName: "blk", Nested: markBlkNested}}
}

// decodeBody decodes the (dynamic-block-expanded) body in two steps: a partial decode
// of the attributes, then a decode of the REMAINING body for the blocks.
func decodeBody(src string, sval cty.Value, which int) (cty.Value, cty.Value, bool) {
	f, diags := hclsyntax.ParseConfig([]byte(src), "m.hcl", hcl.InitialPos)
	vf.Assert(!diags.HasErrors(), "body-catalogue-entry-parses")
	ctx := scope(sval)
	body := dynblock.Expand(f.Body, ctx)
	va, remain, d1 := hcldec.PartialDecode(body, markSpecA, ctx)
	vb, d2 := hcldec.Decode(remain, markSpecB(which), ctx)
	return va, vb, d1.HasErrors() || d2.HasErrors()
}

// H_MarksBody (C06, bodies): the same two-run non-interference statement for
// decoding bodies with static and dynamic blocks through hcldec.
func H_MarksBody() {
	slen := vf.Param("slen", 1)
	bi := vf.Concretize(vf.Choice(len(markBodies)))
	mb := markBodies[bi]
	which := []int{0, 3, 1, 2}[vf.Concretize(vf.Choice(vf.Param("specs", 2)))]
	placement := vf.Concretize(vf.Choice(2))
	vf.Observe("body", bi)
	c1, c2 := newContent(slen), newContent(slen)
	mark := func(v cty.Value) cty.Value { return v.Mark("secret") }
	v1, v2 := mkVal(mb.k, c1, c1, placement, mark), mkVal(mb.k, c2, c1, placement, mark)
	a1, b1, e1 := decodeBody(mb.src, v1, which)
	a2, b2, e2 := decodeBody(mb.src, v2, which)
	if e1 || e2 {
		vf.Reach("error")
		return
	}
	for _, pair := range [][2]cty.Value{{a1, a2}, {b1, b2}} {
		u1, _ := pair[0].UnmarkDeep()
		u2, _ := pair[1].UnmarkDeep()
		same := u1.RawEquals(u2)
		// finding of record: a marked for_each that is EMPTY in one of the two runs
		emptyForEach := (mb.k == kList && (vf.Concretize(c1.n) == 0 || vf.Concretize(c2.n) == 0) && placement == 0) ||
			(mb.k == kBool && c1.b != c2.b)
		vf.AssertKnown(same || (pair[0].ContainsMarked() && pair[1].ContainsMarked()), "mark-lost-in-decoding: "+mb.src, "C06-empty-marked-for_each", emptyForEach)
		if !same {
			vf.Reach("differ")
		}
	}
	vf.Reach("done")
}

// H_MarksRemain (C06, dynamic blocks processed in two steps): the body of a block
// generated from a marked for_each is read with PartialContent for one attribute and
// with Content on the REMAINING body for the other; both attributes' values depend on
// the marked collection and must carry its mark.
func H_MarksRemain() {
	slen := vf.Param("slen", 1)
	c1, c2 := newContent(slen), newContent(slen)
	mark := func(v cty.Value) cty.Value { return v.Mark("secret") }
	src := "dynamic \"blk\" {\n  for_each = s\n  content {\n    x = blk.value\n    y = \"${blk.value}!\"\n  }\n}\n"
	f, diags := hclsyntax.ParseConfig([]byte(src), "r.hcl", hcl.InitialPos)
	vf.Assert(!diags.HasErrors(), "body-parses")
	read := func(sval cty.Value) (cty.Value, cty.Value, bool) {
		ctx := scope(sval)
		content, d := dynblock.Expand(f.Body, ctx).Content(&hcl.BodySchema{Blocks: []hcl.BlockHeaderSchema{{Type: "blk"}}})
		if d.HasErrors() || len(content.Blocks) == 0 {
			return cty.NilVal, cty.NilVal, true
		}
		body := content.Blocks[0].Body
		p1, remain, d1 := body.PartialContent(&hcl.BodySchema{Attributes: []hcl.AttributeSchema{{Name: "x"}}})
		p2, d2 := remain.Content(&hcl.BodySchema{Attributes: []hcl.AttributeSchema{{Name: "y"}}})
		if d1.HasErrors() || d2.HasErrors() || p1.Attributes["x"] == nil || p2.Attributes["y"] == nil {
			return cty.NilVal, cty.NilVal, true
		}
		x, dx := p1.Attributes["x"].Expr.Value(ctx)
		y, dy := p2.Attributes["y"].Expr.Value(ctx)
		return x, y, dx.HasErrors() || dy.HasErrors()
	}
	x1, y1, e1 := read(mkVal(kList, c1, c1, 0, mark))
	x2, y2, e2 := read(mkVal(kList, c2, c1, 0, mark))
	if e1 || e2 {
		vf.Reach("error")
		return
	}
	for i, pair := range [][2]cty.Value{{x1, x2}, {y1, y2}} {
		u1, _ := pair[0].UnmarkDeep()
		u2, _ := pair[1].UnmarkDeep()
		tag := []string{"first-step", "remaining-body"}[i]
		vf.Assert(u1.RawEquals(u2) || (pair[0].ContainsMarked() && pair[1].ContainsMarked()), "mark-lost-in-"+tag)
	}
	vf.Reach("done")
}
