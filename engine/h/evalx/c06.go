package evalx

import (
	"github.com/zclconf/go-cty/cty"

	"verif/engine/vf"
)

// H_Marks (C06): two evaluations that differ only in the CONTENT of the marked
// variable; if the error-free results differ, both must carry the mark.
func H_Marks() {
	slen := vf.Param("slen", 1)
	i, sh := pickShape()
	placement := vf.Concretize(vf.Choice(2))
	c1, c2 := newContent(slen), newContent(slen)
	mark := func(v cty.Value) cty.Value { return v.Mark("secret") }
	v1, v2 := mkVal(sh.k, c1, c1, placement, mark), mkVal(sh.k, c2, c1, placement, mark)
	e := parse(sh.src)
	vf.Observe("shape", i)
	vf.Observe("placement", placement)
	r1, d1 := e.Value(scope(v1))
	r2, d2 := e.Value(scope(v2))
	if d1.HasErrors() || d2.HasErrors() {
		vf.Reach("error")
		return
	}
	u1, _ := r1.UnmarkDeep()
	u2, _ := r2.UnmarkDeep()
	same := u1.RawEquals(u2)
	// finding of record: indexing an OBJECT (static attribute set) with a key derived from the marked value
	objIndexByMarkedKey := sh.src == `o[s]` || sh.src == `{a = p, b = q}[s]` || sh.src == `o[s ? "a" : "b"]`
	vf.AssertKnown(same || (r1.ContainsMarked() && r2.ContainsMarked()), "mark-lost: "+sh.src, "C06-object-index-marked-key", objIndexByMarkedKey)
	if same {
		vf.Reach("same")
	} else {
		vf.Reach("differ")
	}
}
