package evalx

import (
	"strings"

	"github.com/hashicorp/hcl/v2"
	hcljson "github.com/hashicorp/hcl/v2/json"
	"github.com/zclconf/go-cty/cty"

	"verif/engine/vf"
)

// Generated expressions for the dependency-set property. Free names and the names
// bound by for expressions / template for directives are drawn from the same small
// set, so that shadowing, references after the end of a binding scope, nested
// scopes and bindings used in their own collection expression all arise from the
// grammar instead of from a hand-written list.

func dpick(n int) int { return vf.Concretize(vf.Choice(n)) }

type dgen struct {
	leaves   []string
	deepLeft int // how many sub-expressions may still be compound
}

func (g *dgen) leaf() string { return g.leaves[dpick(len(g.leaves))] }

func (g *dgen) iter() string { return []string{"s", "x"}[dpick(2)] }

func (g *dgen) sub(depth int) string {
	if depth > 1 && g.deepLeft > 0 && dpick(2) == 1 {
		g.deepLeft--
		return g.expr(depth - 1)
	}
	return g.leaf()
}

func (g *dgen) expr(depth int) string {
	if depth <= 0 {
		return g.leaf()
	}
	sub := func() string { return g.sub(depth) }
	switch dpick(17) {
	case 0:
		return g.leaf()
	case 1:
		return "[" + sub() + ", " + sub() + "]"
	case 2:
		return "b ? " + sub() + " : " + sub()
	case 3:
		v := g.iter()
		return "[for " + v + " in " + sub() + " : " + sub() + "]"
	case 4:
		v := g.iter()
		return "[for " + v + " in " + sub() + " : " + sub() + " if " + sub() + " != p]"
	case 5:
		k := g.iter()
		v := "x"
		if k == "x" {
			v = "s"
		}
		return "{for " + k + ", " + v + " in " + sub() + " : " + k + " => " + sub() + "}"
	case 6:
		return `"${` + sub() + `}-${` + sub() + `}"`
	case 7:
		v := g.iter()
		return `"%{for ` + v + ` in ` + sub() + `}${` + sub() + `}%{endfor}${` + sub() + `}"`
	case 8:
		return `"%{if b}${` + sub() + `}%{else}${` + sub() + `}%{endif}"`
	case 9:
		return "{(" + sub() + ") = " + sub() + "}"
	case 10:
		return sub() + "[" + sub() + "]"
	case 11:
		return "upper(" + sub() + ")"
	case 12:
		return sub() + "[*]"
	case 13:
		return "[[for x in l : x], " + sub() + "]"
	case 14:
		return sub() + "[*][" + sub() + "]"
	case 15:
		return sub() + "[*].a[" + sub() + "]"
	}
	return "(" + sub() + ")"
}

func scopeX(s cty.Value) *hcl.EvalContext {
	ctx := scope(s)
	ctx.Variables["x"] = cty.StringVal("X")
	return ctx
}

// depCheckX is depCheck in a scope that also defines x (a name the grammar both binds and uses freely).
func depCheckX(e hcl.Expression, tag string, sval cty.Value, sval2 cty.Value) {
	full := scopeX(sval)
	reported := map[string]bool{}
	for _, tr := range e.Variables() {
		reported[tr.RootName()] = true
	}
	v1, d1 := e.Value(full)
	v2, d2 := e.Value(restrict(full, reported))
	vf.Assert(sameOutcome(v1, d1, v2, d2), "reported-variables-suffice")
	if !reported["s"] {
		v3, d3 := e.Value(scopeX(sval2))
		vf.Assert(sameOutcome(v1, d1, v3, d3), "unreported-variable-is-irrelevant")
		vf.Reach("s-not-reported")
	} else {
		vf.Reach("s-reported")
	}
	_ = tag
}

func genLeaves() []string {
	if vf.Param("leaves", 3) >= 4 {
		return []string{"s", "x", "l", "p"}
	}
	return []string{"s", "x", "l"}
}

// H_DepsGen (C07): grammar-generated native expressions and templates.
func H_DepsGen() {
	c1, c2 := newContent(vf.Param("slen", 1)), newContent(vf.Param("slen", 1))
	g := &dgen{leaves: genLeaves(), deepLeft: vf.Param("deep", 1)}
	src := g.expr(vf.Param("depth", 2))
	vf.Observe("src", src)
	e := parse(src)
	id := func(v cty.Value) cty.Value { return v }
	depCheckX(e, src, mkVal(kStr, c1, c1, 0, id), mkVal(kStr, c2, c2, 0, id))
}

func (g *dgen) tpart(depth int) string {
	switch dpick(7) {
	case 0:
		return "a"
	case 1:
		return "${" + g.expr(depth) + "}"
	case 2:
		return "%{if b}" + g.tinner() + "%{endif}"
	case 3:
		return "%{for " + g.iter() + " in " + g.expr(depth) + "}" + g.tinner() + "%{endfor}"
	case 4:
		return "$${" + g.leaf() + "}"
	case 5:
		return "%%{ if " + g.leaf() + " }"
	}
	return "%{ if " + g.leaf() + " != p ~}t%{ else }" + g.tinner() + "%{ endif }"
}

func (g *dgen) tinner() string {
	if dpick(2) == 0 {
		return "t"
	}
	return "${" + g.leaf() + "}"
}

func jsonQuote(s string) string {
	s = strings.ReplaceAll(s, `\`, `\\`)
	s = strings.ReplaceAll(s, `"`, `\"`)
	return `"` + s + `"`
}

// H_DepsGenJSON (C07): JSON expressions whose strings and object keys are
// grammar-generated templates (interpolations and directives).
func H_DepsGenJSON() {
	c1, c2 := newContent(vf.Param("slen", 1)), newContent(vf.Param("slen", 1))
	g := &dgen{leaves: genLeaves(), deepLeft: 0}
	depth := vf.Param("depth", 0)
	t := g.tpart(depth)
	if dpick(2) == 1 {
		t += g.tpart(0)
	}
	var src string
	switch dpick(4) {
	case 0:
		src = jsonQuote(t)
	case 1:
		src = "{" + jsonQuote(t) + `: 1}`
	case 2:
		src = `{"k": [` + jsonQuote(t) + `, "${x}"]}`
	default:
		src = "{" + jsonQuote(t) + `: ` + jsonQuote("${"+g.leaf()+"}") + "}"
	}
	vf.Observe("src", src)
	e, diags := hcljson.ParseExpression([]byte(src), "e.json")
	vf.Assert(!diags.HasErrors(), "generated-json-parses")
	id := func(v cty.Value) cty.Value { return v }
	depCheckX(e, src, mkVal(kStr, c1, c1, 0, id), mkVal(kStr, c2, c2, 0, id))
}
