package evalx

import (
	"strings"

	"github.com/zclconf/go-cty/cty"

	"verif/engine/vf"
)

// H_MarksGen (C06): the two-run statement of H_Marks over type-directed generated expressions.
func H_MarksGen() {
	src, k := genTyped()
	vf.Observe("src", src)
	e := parse(src)
	slen := vf.Param("slen", 1)
	placement := dpick(2)
	c1, c2 := newContent(slen), newContent(slen)
	mark := func(v cty.Value) cty.Value { return v.Mark("secret") }
	v1, v2 := mkVal(k, c1, c1, placement, mark), mkVal(k, c2, c1, placement, mark)
	r1, d1 := e.Value(scope(v1))
	r2, d2 := e.Value(scope(v2))
	if d1.HasErrors() || d2.HasErrors() {
		vf.Reach("error")
		return
	}
	u1, _ := r1.UnmarkDeep()
	u2, _ := r2.UnmarkDeep()
	same := u1.RawEquals(u2)
	// finding of record: an OBJECT (here: the result of a map 'for' expression or of an object
	// constructor) indexed with a key derived from the marked value
	objIndex := strings.Contains(src, "}[")
	vf.AssertKnown(same || (r1.ContainsMarked() && r2.ContainsMarked()), "mark-lost", "C06-object-index-marked-key", objIndex)
	if same {
		vf.Reach("same")
	} else {
		vf.Reach("differ")
	}
}

// H_UnknownGen (C05): the soundness statement of H_Unknown over type-directed generated expressions.
func H_UnknownGen() {
	src, k := genTyped()
	vf.Observe("src", src)
	e := parse(src)
	c := newContent(vf.Param("slen", 1))
	id := func(v cty.Value) cty.Value { return v }
	placement := dpick(2)
	conc := mkVal(k, c, c, placement, id)
	var abs cty.Value
	if placement == 0 {
		abs = abstraction(k, c, conc)
	} else {
		abs = mkVal(k, c, c, 1, func(v cty.Value) cty.Value { return cty.UnknownVal(v.Type()) })
	}
	ra, da := e.Value(scopeU(abs, cty.UnknownVal(cty.Bool)))
	rc, dc := e.Value(scopeU(conc, cty.BoolVal(c.u)))
	if !dc.HasErrors() {
		vf.Assert(rc.IsWhollyKnown(), "known-inputs-give-known-result")
	}
	if da.HasErrors() || dc.HasErrors() {
		vf.Reach("error")
		return
	}
	vf.Assert(consistent(ra, rc), "unknown-result-consistent")
	if ra.IsWhollyKnown() {
		vf.Reach("abstract-known")
	} else {
		vf.Reach("abstract-unknown")
	}
}
