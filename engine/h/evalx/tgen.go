package evalx

import (
	"github.com/zclconf/go-cty/cty"

	"verif/engine/vf"
)

// Type-directed expression generator: every derivation is a well-typed expression
// over the public variables p (string), b (bool), n (number), l (list), m (map),
// o (object) and the special variable s, whose kind is fixed per run. Well-typed
// expressions evaluate without error for most contents, so the two-run properties
// (C05 unknown soundness, C06 mark propagation) have something to compare.

type ty int

const (
	tS ty = iota
	tB
	tN
	tL
	tM
	tO
)

func kindTy(k kind) ty {
	switch k {
	case kStr:
		return tS
	case kBool:
		return tB
	case kNum:
		return tN
	case kList:
		return tL
	case kMap:
		return tM
	}
	return tO
}

type iterVar struct {
	name string
	t    ty
}

type tgen struct {
	k        kind
	deepLeft int
	iters    []iterVar
	usedS    bool
}

func (g *tgen) leaf(t ty) string {
	var c []string
	switch t {
	case tS:
		c = []string{"p", `"li"`}
	case tB:
		c = []string{"b", "false"}
	case tN:
		c = []string{"n", "2"}
	case tL:
		c = []string{"l"}
	case tM:
		c = []string{"m"}
	case tO:
		c = []string{"o"}
	}
	if vf.Param("lits", 0) == 0 {
		c = c[:1] // public variables only; literals are added with lits=1
	}
	if t == tB && vf.Param("useu", 0) == 1 {
		c = append(c, "u") // C05: a condition that is unknown in the abstract run
	}
	if kindTy(g.k) == t {
		c = append(c, "s")
	}
	for _, it := range g.iters {
		if it.t == t {
			c = append(c, it.name)
		}
	}
	r := c[dpick(len(c))]
	if r == "s" {
		g.usedS = true
	}
	return r
}

func (g *tgen) sub(t ty, depth int) string {
	if depth > 1 && g.deepLeft > 0 && dpick(2) == 1 {
		g.deepLeft--
		return g.expr(t, depth-1)
	}
	return g.leaf(t)
}

// with generates body() with the iteration variables vs in scope.
func (g *tgen) with(vs []iterVar, body func() string) string {
	n := len(g.iters)
	g.iters = append(g.iters, vs...)
	r := body()
	g.iters = g.iters[:n]
	return r
}

func (g *tgen) expr(t ty, depth int) string {
	if depth <= 0 {
		return g.leaf(t)
	}
	S := func() string { return g.sub(tS, depth) }
	B := func() string { return g.sub(tB, depth) }
	N := func() string { return g.sub(tN, depth) }
	L := func() string { return g.sub(tL, depth) }
	M := func() string { return g.sub(tM, depth) }
	O := func() string { return g.sub(tO, depth) }
	x := []iterVar{{"x", tS}}
	kv := []iterVar{{"k", tS}, {"v", tS}}
	switch t {
	case tS:
		switch dpick(17) {
		case 0:
			return g.leaf(t)
		case 1:
			return "upper(" + S() + ")"
		case 2:
			return `"a${` + S() + `}b"`
		case 3:
			return `"${` + N() + `}"`
		case 4:
			return B() + " ? " + S() + " : " + S()
		case 5:
			return L() + "[" + N() + "]"
		case 6:
			return M() + "[" + S() + "]"
		case 7:
			return O() + ".a"
		case 8:
			return `"%{if ` + B() + `}${` + S() + `}%{else}y%{endif}"`
		case 9:
			c := L()
			return `"%{for x in ` + c + `}${x}` + g.with(x, func() string { return `${` + S() + `}` }) + `%{endfor}"`
		case 10:
			return "cat(" + S() + ", " + S() + ")"
		case 11:
			return "cat(" + L() + "...)"
		case 12:
			return `" ${~ ` + S() + ` ~} "`
		case 13:
			return "[" + S() + ", " + S() + "][" + N() + "]"
		case 14:
			return M() + ".a"
		case 15:
			return "mn[" + S() + "]"
		}
		return "(" + S() + ")"
	case tB:
		switch dpick(11) {
		case 0:
			return g.leaf(t)
		case 1:
			return "!" + B()
		case 2:
			return S() + " == " + S()
		case 3:
			return N() + " < " + N()
		case 4:
			return B() + " && " + B()
		case 5:
			return B() + " || " + B()
		case 6:
			return O() + ".b"
		case 7:
			return L() + " == " + L()
		case 8:
			return N() + " >= " + N()
		case 9:
			return S() + " != " + S()
		}
		return B() + " ? " + B() + " : " + B()
	case tN:
		switch dpick(9) {
		case 0:
			return g.leaf(t)
		case 1:
			return N() + " + " + N()
		case 2:
			return N() + " * " + N()
		case 3:
			return "-" + N()
		case 4:
			return "length(" + L() + ")"
		case 5:
			return B() + " ? " + N() + " : " + N()
		case 6:
			return N() + " % " + N()
		case 7:
			return "length(" + M() + ")"
		}
		return N() + " - " + N()
	case tL:
		switch dpick(9) {
		case 0:
			return g.leaf(t)
		case 1:
			return "[" + S() + ", " + S() + "]"
		case 2:
			c := L()
			return "[for x in " + c + " : " + g.with(x, S) + "]"
		case 3:
			c := L()
			return "[for x in " + c + " : x if " + g.with(x, B) + "]"
		case 4:
			return B() + " ? " + L() + " : " + L()
		case 5:
			c := M()
			return "[for k, v in " + c + " : " + g.with(kv, S) + "]"
		case 6:
			return L() + "[*]"
		case 7:
			return "[" + O() + ", " + O() + "][*].a"
		}
		return S() + "[*]"
	case tM:
		switch dpick(6) {
		case 0:
			return g.leaf(t)
		case 1:
			c := L()
			return "{for x in " + c + " : x => " + g.with(x, S) + "}"
		case 2:
			c := M()
			return "{for k, v in " + c + " : k => " + g.with(kv, S) + "}"
		case 3:
			c := M()
			return "{for k, v in " + c + " : v => k... if " + g.with(kv, B) + "}"
		case 4:
			return B() + " ? " + M() + " : " + M()
		}
		return "{(" + S() + ") = " + S() + ", zz = " + S() + "}"
	}
	switch dpick(4) {
	case 0:
		return g.leaf(t)
	case 1:
		return "{a = " + S() + ", b = " + B() + "}"
	case 2:
		return B() + " ? " + O() + " : " + O()
	}
	return "[" + O() + "][" + N() + "]"
}

// genTyped draws the special variable's kind and an expression that uses s.
func genTyped() (string, kind) {
	k := kind(dpick(6))
	g := &tgen{k: k, deepLeft: vf.Param("deep", 1)}
	t := ty(dpick(6))
	src := g.expr(t, vf.Param("depth", 2))
	vf.Assume(g.usedS)
	return src, k
}

var _ = cty.String
