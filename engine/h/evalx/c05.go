package evalx

import (
	"strings"

	"github.com/zclconf/go-cty/cty"
	"github.com/zclconf/go-cty/cty/convert"

	"verif/engine/vf"
)

// consistent: the concrete result conc is one of the values the abstract result abs stands for.
func consistent(abs, conc cty.Value) bool {
	abs, _ = abs.Unmark()
	conc, _ = conc.Unmark()
	if !abs.IsKnown() {
		if abs.Type() != cty.DynamicPseudoType && !conc.Type().Equals(abs.Type()) {
			// "after converting the abstract result to the concrete result's type": a typed
			// unknown stands only for values of a type it converts to (for example the
			// unknown bool that the type unification of a conditional turns into a string
			// once the other branch's type is known)
			if abs.Type().HasDynamicTypes() {
				if _, err := convert.Convert(conc, abs.Type()); err != nil {
					return false
				}
			} else {
				cv, err := convert.Convert(abs, conc.Type())
				if err != nil {
					return false
				}
				if cv.IsKnown() {
					return consistent(cv, conc)
				}
				abs = cv
			}
		}
		r := abs.Range()
		if r.DefinitelyNotNull() && conc.IsNull() {
			return false
		}
		if conc.IsNull() {
			return true
		}
		ty := conc.Type()
		switch {
		case ty == cty.String && abs.Type() == cty.String:
			if !strings.HasPrefix(conc.AsString(), r.StringPrefix()) {
				return false
			}
		case ty == cty.Number && abs.Type() == cty.Number:
			if lo, incl := r.NumberLowerBound(); lo.IsKnown() && !lo.IsNull() && !lo.RawEquals(cty.NegativeInfinity) {
				if incl {
					if conc.LessThan(lo).True() {
						return false
					}
				} else if conc.LessThanOrEqualTo(lo).True() {
					return false
				}
			}
			if hi, incl := r.NumberUpperBound(); hi.IsKnown() && !hi.IsNull() && !hi.RawEquals(cty.PositiveInfinity) {
				if incl {
					if conc.GreaterThan(hi).True() {
						return false
					}
				} else if conc.GreaterThanOrEqualTo(hi).True() {
					return false
				}
			}
		case (ty.IsCollectionType() || ty.IsTupleType()) && abs.Type() != cty.DynamicPseudoType && (abs.Type().IsCollectionType()):
			n := conc.LengthInt()
			if n < r.LengthLowerBound() || n > r.LengthUpperBound() {
				return false
			}
		}
		return true
	}
	if abs.IsNull() {
		return conc.IsNull()
	}
	if conc.IsNull() || !conc.IsKnown() {
		return false
	}
	// "after converting the abstract result to the concrete result's type"
	at, ct := abs.Type(), conc.Type()
	switch {
	case at.IsPrimitiveType():
		cv, err := convert.Convert(abs, ct)
		if err != nil {
			return false
		}
		return cv.RawEquals(conc)
	case at.IsListType() || at.IsTupleType() || at.IsSetType():
		if !(ct.IsListType() || ct.IsTupleType() || ct.IsSetType()) {
			return false
		}
		if at.IsSetType() || ct.IsSetType() {
			return abs.LengthInt() >= 0 // sets of unknowns are outside the bound; only the kind is compared
		}
		if abs.LengthInt() != conc.LengthInt() {
			return false
		}
		ai, ci := abs.ElementIterator(), conc.ElementIterator()
		for ai.Next() && ci.Next() {
			_, av := ai.Element()
			_, cv := ci.Element()
			if !consistent(av, cv) {
				return false
			}
		}
		return true
	case at.IsMapType() || at.IsObjectType():
		if !(ct.IsMapType() || ct.IsObjectType()) {
			return false
		}
		if abs.LengthInt() != conc.LengthInt() {
			return false
		}
		for it := abs.ElementIterator(); it.Next(); {
			k, av := it.Element()
			ks := k.AsString()
			var cv cty.Value
			if ct.IsObjectType() {
				if !ct.HasAttribute(ks) {
					return false
				}
				cv = conc.GetAttr(ks)
			} else {
				if !conc.HasIndex(k).True() {
					return false
				}
				cv = conc.Index(k)
			}
			if !consistent(av, cv) {
				return false
			}
		}
		return true
	}
	return abs.RawEquals(conc)
}

// abstraction returns an unknown standing for every value mkVal can produce for
// kind k with the given content, chosen symbolically among: plain typed unknown,
// refined unknown (not null; string prefix taken from the concrete content;
// numeric bounds; length bounds), and the dynamic value.
func abstraction(k kind, c content, conc cty.Value) cty.Value {
	ty := typeOf(k)
	if c.null {
		// only an unknown without a not-null refinement stands for a null
		if vf.Concretize(vf.Choice(2)) == 0 {
			return cty.UnknownVal(ty)
		}
		return cty.DynamicVal
	}
	switch vf.Concretize(vf.Choice(4)) {
	case 0:
		return cty.UnknownVal(ty)
	case 1:
		return cty.DynamicVal
	case 2:
		return cty.UnknownVal(ty).RefineNotNull()
	}
	switch k {
	case kStr:
		// a prefix refinement satisfied by the concrete content
		n := vf.Concretize(vf.Choice(len(c.s1) + 1))
		return cty.UnknownVal(ty).Refine().NotNull().StringPrefixFull(c.s1[:n]).NewValue()
	case kNum:
		if vf.Concretize(vf.Choice(2)) == 1 {
			// an exclusive lower bound; the concrete content must satisfy it
			vf.Assume(conc.GreaterThan(cty.NumberIntVal(1)).True())
			return cty.UnknownVal(ty).Refine().NotNull().NumberRangeLowerBound(cty.NumberIntVal(1), false).NewValue()
		}
		return cty.UnknownVal(ty).Refine().NotNull().NumberRangeLowerBound(cty.NumberIntVal(0), true).NumberRangeUpperBound(cty.NumberIntVal(2), true).NewValue()
	case kList, kMap:
		vf.Assume(conc.LengthInt() >= 1) // the length refinement must hold of the concrete content
		return cty.UnknownVal(ty).Refine().NotNull().CollectionLengthLowerBound(1).CollectionLengthUpperBound(2).NewValue()
	}
	return cty.UnknownVal(ty).RefineNotNull()
}

// H_Unknown (C05): an error-free evaluation with the special variable unknown
// soundly approximates the error-free evaluation with any concrete content.
func H_Unknown() {
	slen := vf.Param("slen", 1)
	i, sh := pickShape()
	c := newContent(slen)
	id := func(v cty.Value) cty.Value { return v }
	placement := vf.Concretize(vf.Choice(2))
	conc := mkVal(sh.k, c, c, placement, id) // same structure as the abstract value below
	var abs cty.Value
	if placement == 0 {
		abs = abstraction(sh.k, c, conc)
	} else {
		// only one nested leaf is unknown
		abs = mkVal(sh.k, c, c, 1, func(v cty.Value) cty.Value { return cty.UnknownVal(v.Type()) })
	}
	e := parse(sh.src)
	vf.Observe("shape", i)
	ra, da := e.Value(scopeU(abs, cty.UnknownVal(cty.Bool)))
	rc, dc := e.Value(scopeU(conc, cty.BoolVal(c.u)))
	if !dc.HasErrors() {
		vf.Assert(rc.IsWhollyKnown(), "known-inputs-give-known-result: "+sh.src)
	}
	if da.HasErrors() || dc.HasErrors() {
		vf.Reach("error")
		return
	}
	vf.Assert(consistent(ra, rc), "unknown-result-consistent: "+sh.src)
	if ra.IsWhollyKnown() {
		vf.Reach("abstract-known")
	} else {
		vf.Reach("abstract-unknown")
	}
}
