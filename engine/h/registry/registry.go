// Package registry lists every harness entry point for the native replay binary.
package registry

import (
	"verif/engine/h/c11"
	"verif/engine/h/c13"
	"verif/engine/h/c15"
	"verif/engine/h/selftest"
)

var Entries = map[string]func(){
	"c11.H_String":        c11.H_String,
	"c11.H_Value":         c11.H_Value,
	"c11.H_Traversal":     c11.H_Traversal,
	"c11.H_Writer":        c11.H_Writer,
	"c15.H_Bytes":         c15.H_Bytes,
	"c15.H_Seed":          c15.H_Seed,
	"c13.H_Accept":        c13.H_Accept,
	"c13.H_Value":         c13.H_Value,
	"c13.H_Window":        c13.H_Window,
	"c13.H_Template":      c13.H_Template,
	"selftest.H_Classify": selftest.H_Classify,
	"selftest.H_Expr":     selftest.H_Expr,
	"selftest.H_Scan":     selftest.H_Scan,
}
