// Package c16 holds the harnesses for property C16 (gohcl struct round trip).
//
// gohcl and gocty are reflection programs; they run on the engine's mutable model of
// reflect.Value (interp/reflect_mut.go). Struct *types* are fixed by the harness, the
// *values* are built from symbolic choices and symbolic string contents.
package c16

import (
	"strconv"
	"unicode/utf8"

	"github.com/hashicorp/hcl/v2"
	"github.com/hashicorp/hcl/v2/gohcl"
	"github.com/hashicorp/hcl/v2/hclsyntax"
	"github.com/hashicorp/hcl/v2/hclwrite"
	hcljson "github.com/hashicorp/hcl/v2/json"

	"verif/engine/vf"
)

type Sub struct {
	ID string `hcl:"id,label"`
	X  int    `hcl:"x,optional"`
}

type Leaf struct {
	Kind string `hcl:"kind,label"`
	Name string `hcl:"name,label"`
	V    string `hcl:"v"`
	N    *int   `hcl:"n"`
	On   bool   `hcl:"on,optional"`
}

type Solo struct {
	Items []string `hcl:"items"`
	Sub   *Sub     `hcl:"sub,block"`
}

type Cfg struct {
	Name   string            `hcl:"name"`
	Opt    *string           `hcl:"opt"`
	Flag   bool              `hcl:"flag,optional"`
	Count  int64             `hcl:"count,optional"`
	Big    uint64            `hcl:"big,optional"`
	Ratio  float64           `hcl:"ratio,optional"`
	Tags   map[string]string `hcl:"tags,optional"`
	List   []string          `hcl:"list,optional"`
	Nums   []int             `hcl:"nums,optional"`
	Leaves []Leaf            `hcl:"leaf,block"`
	PSubs  []*Sub            `hcl:"psub,block"`
	Solo   *Solo             `hcl:"solo,block"`
	One    Sub               `hcl:"one,block"`
}

func pick(n int) int { return vf.Concretize(vf.Choice(n)) }

var slen, alpha int

// With nsym < 99 only nsym consecutive str() calls, starting at call symFrom (a
// concretised choice), return symbolic content; the others return a plain string. Every
// string position of the value is symbolic in some path, but not all at once.
var nsym, symFrom, strCalls int

// str returns a symbolic string: alpha 0 = n printable ASCII bytes; alpha 1 = bytes over
// the escape-relevant alphabet; alpha 2 = any valid UTF-8 of n bytes.
func str() string {
	n := slen
	if n == 0 {
		return ""
	}
	strCalls++
	if nsym < 99 && (strCalls-1 < symFrom || strCalls-1 >= symFrom+nsym) {
		return "p"
	}
	s := vf.Str(n)
	switch alpha {
	case 0:
		for i := 0; i < n; i++ {
			vf.Assume(s[i] >= 0x20 && s[i] < 0x7f)
		}
	case 1:
		for i := 0; i < n; i++ {
			c := s[i]
			vf.Assume(c == 'a' || c == '$' || c == '%' || c == '{' || c == '"' || c == '\\' || c == '\n' || c == ' ' || c == '.' || c == '-' || c == '0' || c == '/')
		}
	default:
		vf.Assume(utf8.ValidString(s))
	}
	return s
}

var ints = []int64{0, 1, -1, 7, 1 << 31, -(1 << 31) - 1, 1<<53 + 1, 9223372036854775807, -9223372036854775808}

var uints = []uint64{0, 1 << 63, 18446744073709551615, 1<<53 + 1}

var floats = []float64{0, 0.5, -2.25, 1e20, -3e19, 1e-7, 123456789.125}

// Only the dimensions in focus vary (one at a time, or pairs with param pairs=1); the
// others take a fixed plain value. Without this the product of independent choices is
// far beyond reach; with it every dimension is still explored in full.
var focusA, focusB int

const nDims = 10

func rich(d int) bool { return d == focusA || d == focusB }

func strIf(d int, plain string) string {
	if rich(d) {
		return str()
	}
	return plain
}

func numIf(d int, plain int64) int64 {
	if rich(d) {
		return ints[pick(len(ints))]
	}
	return plain
}

func genSub(d int) Sub { return Sub{ID: strIf(d, "id"), X: int(numIf(d, 5))} }

func genCfg(maxLeaves, maxColl int, deep bool) Cfg {
	focusA = pick(nDims)
	focusB = -1
	if vf.Param("pairs", 0) == 1 {
		focusB = pick(nDims)
		vf.Assume(focusB >= focusA)
	}
	var c Cfg
	// 0: plain string attributes, pointer attribute
	c.Name = strIf(0, "nm")
	if rich(0) {
		if vf.Bool() {
			o := str()
			c.Opt = &o
		}
		c.Flag = vf.Bool()
	}
	// 1: numbers
	c.Count = numIf(1, 3)
	if rich(8) {
		c.Big = uints[pick(len(uints))]
	}
	if rich(9) {
		c.Ratio = floats[pick(len(floats))]
	}
	if rich(1) {
		if n := pick(maxColl + 1); n > 0 {
			c.Nums = make([]int, n)
			for i := range c.Nums {
				c.Nums[i] = int(numIf(1, 0))
			}
		}
	}
	// 2: map attribute
	if rich(2) {
		switch pick(maxColl + 2) {
		case 0: // nil map
		case 1:
			c.Tags = map[string]string{}
		default:
			c.Tags = map[string]string{}
			k := str()
			c.Tags[k] = str()
			if maxColl > 1 && vf.Bool() {
				c.Tags["k2"] = str()
			}
		}
	}
	// 3: list attribute
	if rich(3) {
		switch pick(maxColl + 2) {
		case 0:
		case 1:
			c.List = []string{}
		case 2:
			c.List = []string{str()}
		default:
			c.List = []string{str(), str()}
		}
	}
	// 4: repeated labelled blocks
	if rich(4) {
		nl := pick(maxLeaves + 1)
		for i := 0; i < nl; i++ {
			l := Leaf{Kind: str(), Name: str(), V: str(), On: vf.Bool()}
			if vf.Bool() {
				n := int(numIf(4, 0))
				l.N = &n
			}
			c.Leaves = append(c.Leaves, l)
		}
	} else {
		c.Leaves = []Leaf{{Kind: "k", Name: "n", V: "v"}}
	}
	// 5: repeated blocks behind pointers
	if rich(5) && deep {
		np := pick(3)
		for i := 0; i < np; i++ {
			s := genSub(5)
			c.PSubs = append(c.PSubs, &s)
		}
	}
	// 6: optional single block with a nested optional block
	if rich(6) && deep {
		if vf.Bool() {
			so := &Solo{Items: []string{str()}}
			if vf.Bool() {
				s := genSub(6)
				so.Sub = &s
			}
			c.Solo = so
		}
	}
	// 7: required single block
	c.One = genSub(7)
	return c
}

func eqStrP(a, b *string) bool {
	if a == nil || b == nil {
		return a == nil && b == nil
	}
	return *a == *b
}

func eqIntP(a, b *int) bool {
	if a == nil || b == nil {
		return a == nil && b == nil
	}
	return *a == *b
}

func eqSubP(a, b *Sub) bool {
	if a == nil || b == nil {
		return a == nil && b == nil
	}
	return *a == *b
}

// eqCfg is reflect.DeepEqual written out, except that a nil and an empty slice of
// blocks are the same (a configuration cannot tell them apart).
func eqCfg(a, b *Cfg, strictNil bool) (bool, string) {
	if a.Name != b.Name {
		return false, "name"
	}
	if !eqStrP(a.Opt, b.Opt) {
		return false, "opt"
	}
	if a.Flag != b.Flag || a.Count != b.Count || a.Big != b.Big || a.Ratio != b.Ratio {
		return false, "flag-count"
	}
	if strictNil && (a.Tags == nil) != (b.Tags == nil) {
		return false, "tags-nil"
	}
	if len(a.Tags) != len(b.Tags) {
		return false, "tags-len"
	}
	for k, v := range a.Tags {
		w, ok := b.Tags[k]
		if !ok || v != w {
			return false, "tags"
		}
	}
	if strictNil && (a.List == nil) != (b.List == nil) {
		return false, "list-nil"
	}
	if len(a.List) != len(b.List) {
		return false, "list-len"
	}
	for i := range a.List {
		if a.List[i] != b.List[i] {
			return false, "list"
		}
	}
	if strictNil && (a.Nums == nil) != (b.Nums == nil) {
		return false, "nums-nil"
	}
	if len(a.Nums) != len(b.Nums) {
		return false, "nums-len"
	}
	for i := range a.Nums {
		if a.Nums[i] != b.Nums[i] {
			return false, "nums"
		}
	}
	if len(a.Leaves) != len(b.Leaves) {
		return false, "leaves-len"
	}
	for i := range a.Leaves {
		x, y := a.Leaves[i], b.Leaves[i]
		if x.Kind != y.Kind || x.Name != y.Name || x.V != y.V || x.On != y.On || !eqIntP(x.N, y.N) {
			return false, "leaf"
		}
	}
	if len(a.PSubs) != len(b.PSubs) {
		return false, "psubs-len"
	}
	for i := range a.PSubs {
		if !eqSubP(a.PSubs[i], b.PSubs[i]) {
			return false, "psub"
		}
	}
	if (a.Solo == nil) != (b.Solo == nil) {
		return false, "solo-nil"
	}
	if a.Solo != nil {
		if len(a.Solo.Items) != len(b.Solo.Items) {
			return false, "solo-items-len"
		}
		for i := range a.Solo.Items {
			if a.Solo.Items[i] != b.Solo.Items[i] {
				return false, "solo-items"
			}
		}
		if !eqSubP(a.Solo.Sub, b.Solo.Sub) {
			return false, "solo-sub"
		}
	}
	if a.One != b.One {
		return false, "one"
	}
	return true, ""
}

func params() (maxLeaves, maxColl int, deep bool) {
	slen = vf.Param("slen", 1)
	alpha = vf.Param("alpha", 0)
	nsym = vf.Param("nsym", 99)
	strCalls = 0
	if nsym < 99 {
		symFrom = pick(vf.Param("npos", 6))
	}
	return vf.Param("leaves", 1), vf.Param("coll", 1), vf.Param("deep", 0) == 1
}

// H_RoundTrip: decode(encode(v)) == v in the native syntax.
func H_RoundTrip() {
	maxLeaves, maxColl, deep := params()
	in := genCfg(maxLeaves, maxColl, deep)
	f := hclwrite.NewEmptyFile()
	gohcl.EncodeIntoBody(&in, f.Body())
	src := f.Bytes()
	vf.Observe("src", src)
	pf, diags := hclsyntax.ParseConfig(src, "x.hcl", hcl.InitialPos)
	vf.Assert(!diags.HasErrors(), "encoded-source-parses")
	if diags.HasErrors() {
		return
	}
	var out Cfg
	diags = gohcl.DecodeBody(pf.Body, nil, &out)
	vf.Observe("errs", diags.HasErrors())
	vf.Assert(!diags.HasErrors(), "encoded-source-decodes")
	if diags.HasErrors() {
		return
	}
	ok, where := eqCfg(&in, &out, true)
	vf.Observe("where", where)
	vf.Assert(ok, "decode-of-encode-is-identity")
	vf.Reach("roundtrip")
}

var jsonTemplates bool

// ---- JSON rendering of the same value (the harness's own renderer; JSON strings are
// templates in the JSON syntax, so "${" and "%{" are escaped by doubling the introducer).

func jsonStr(s string) string {
	if !jsonTemplates {
		return jsonLabel(s)
	}
	out := []byte{'"'}
	for i := 0; i < len(s); i++ {
		c := s[i]
		switch {
		case c == '"' || c == '\\':
			out = append(out, '\\', c)
		case c == '\n':
			out = append(out, '\\', 'n')
		case c < 0x20:
			out = append(out, '\\', 'u', '0', '0', "0123456789abcdef"[c>>4], "0123456789abcdef"[c&15])
		case (c == '$' || c == '%') && i+1 < len(s) && s[i+1] == '{':
			out = append(out, c, c)
		default:
			out = append(out, c)
		}
	}
	return string(append(out, '"'))
}

// jsonKey renders an object property name; names are not templates in label position
// and in attribute-name position, but map keys inside an expression are.
func jsonLabel(s string) string {
	out := []byte{'"'}
	for i := 0; i < len(s); i++ {
		c := s[i]
		switch {
		case c == '"' || c == '\\':
			out = append(out, '\\', c)
		case c == '\n':
			out = append(out, '\\', 'n')
		case c < 0x20:
			out = append(out, '\\', 'u', '0', '0', "0123456789abcdef"[c>>4], "0123456789abcdef"[c&15])
		default:
			out = append(out, c)
		}
	}
	return string(append(out, '"'))
}

func itoa(n int64) string { return strconv.FormatInt(n, 10) }

func subJSON(s *Sub) string { return `{"x": ` + itoa(int64(s.X)) + `}` }

func cfgJSON(c *Cfg, arrayForm bool) string {
	j := `{"name": ` + jsonStr(c.Name)
	if c.Opt != nil {
		j += `, "opt": ` + jsonStr(*c.Opt)
	}
	if c.Flag {
		j += `, "flag": true`
	} else {
		j += `, "flag": false`
	}
	j += `, "count": ` + itoa(c.Count)
	j += `, "big": ` + strconv.FormatUint(c.Big, 10)
	j += `, "ratio": ` + strconv.FormatFloat(c.Ratio, 'f', -1, 64)
	if c.Tags == nil {
		j += `, "tags": null`
	} else {
		j += `, "tags": {`
		first := true
		for k, v := range c.Tags {
			if !first {
				j += ", "
			}
			first = false
			j += jsonStr(k) + ": " + jsonStr(v)
		}
		j += "}"
	}
	if c.List == nil {
		j += `, "list": null`
	} else {
		j += `, "list": [`
		for i, v := range c.List {
			if i > 0 {
				j += ", "
			}
			j += jsonStr(v)
		}
		j += "]"
	}
	if c.Nums == nil {
		j += `, "nums": null`
	} else {
		j += `, "nums": [`
		for i, v := range c.Nums {
			if i > 0 {
				j += ", "
			}
			j += itoa(int64(v))
		}
		j += "]"
	}
	// one property per block so that source order is kept whatever the labels are
	for _, l := range c.Leaves {
		body := `{"v": ` + jsonStr(l.V)
		if l.N != nil {
			body += `, "n": ` + itoa(int64(*l.N))
		}
		if l.On {
			body += `, "on": true`
		}
		body += "}"
		if arrayForm {
			body = "[" + body + "]"
		}
		j += `, "leaf": {` + jsonLabel(l.Kind) + `: {` + jsonLabel(l.Name) + `: ` + body + `}}`
	}
	for _, s := range c.PSubs {
		j += `, "psub": {` + jsonLabel(s.ID) + `: ` + subJSON(s) + `}`
	}
	if c.Solo != nil {
		j += `, "solo": {"items": [`
		for i, v := range c.Solo.Items {
			if i > 0 {
				j += ", "
			}
			j += jsonStr(v)
		}
		j += "]"
		if c.Solo.Sub != nil {
			j += `, "sub": {` + jsonLabel(c.Solo.Sub.ID) + `: ` + subJSON(c.Solo.Sub) + `}`
		}
		j += "}"
	}
	j += `, "one": {` + jsonLabel(c.One.ID) + `: ` + subJSON(&c.One) + `}}`
	if arrayForm {
		j = "[" + j + "]"
	}
	return j
}

// H_JSON: decoding the equivalent JSON document gives the same value as decoding the
// encoded native source.
func H_JSON() {
	maxLeaves, maxColl, deep := params()
	in := genCfg(maxLeaves, maxColl, deep)
	// duplicate property names inside the tags object are a JSON-level error
	arrayForm := pick(2) == 1
	// with a nil EvalContext JSON strings are literal; with a context they are templates,
	// so the equivalent document doubles the introducers of "${" and "%{"
	jsonTemplates = pick(2) == 1
	var ctx *hcl.EvalContext
	if jsonTemplates {
		ctx = &hcl.EvalContext{}
	}
	src := cfgJSON(&in, arrayForm)
	vf.Observe("json", src)
	jf, diags := hcljson.Parse([]byte(src), "x.json")
	vf.Assert(!diags.HasErrors(), "json-document-parses")
	if diags.HasErrors() {
		return
	}
	var out Cfg
	diags = gohcl.DecodeBody(jf.Body, ctx, &out)
	vf.Observe("errs", diags.HasErrors())
	if _, dup := in.Tags["k2"]; dup && len(in.Tags) == 1 {
		// symbolic key equal to "k2": map has one entry, JSON has two properties; skip
		return
	}
	vf.Assert(!diags.HasErrors(), "json-document-decodes")
	if diags.HasErrors() {
		return
	}
	ok, where := eqCfg(&in, &out, true)
	vf.Observe("where", where)
	vf.Assert(ok, "json-decode-equals-original")
	vf.Reach("json")
}

// ---- totality: any content decodes to diagnostics, never a panic

type WithRemain struct {
	Name   string         `hcl:"name,optional"`
	Expr   hcl.Expression `hcl:"expr,optional"`
	Attr   *hcl.Attribute `hcl:"attr,optional"`
	Subs   []Sub          `hcl:"sub,block"`
	Remain hcl.Body       `hcl:",remain"`
}

type WithAttrs struct {
	Leaves []*Leaf        `hcl:"leaf,block"`
	Rest   hcl.Attributes `hcl:",remain"`
}

type WithBody struct {
	Whole hcl.Body          `hcl:",body"`
	Solo  *Solo             `hcl:"solo,block"`
	More  map[string]string `hcl:",remain"`
}

var nativeSeeds = []string{
	"name = \"nm\"\nopt = \"o\"\nflag = true\ncount = 3\ntags = { a = \"b\" }\nlist = [\"p\"]\nnums = [1, 2]\n\nleaf \"k\" \"n\" {\n  v = \"v\"\n  n = 1\n}\n\none \"id\" {\n  x = 5\n}\n",
	"name = \"nm\"\nexpr = a.b\nattr = 1\nsub \"s\" {\n}\nsub \"t\" {\n  x = 2\n}\nother = [1]\n",
	"leaf \"a\" \"b\" {\n  v = \"x\"\n  n = null\n  on = true\n}\nx = \"1\"\ny = \"2\"\n",
	"solo {\n  items = [\"i\"]\n  sub \"z\" {\n    x = 1\n  }\n}\nk = \"v\"\n",
	"name = 1\none \"a\" \"b\" {\n}\none {\n}\nleaf \"k\" {\n v = [1]\n n = \"x\"\n}\npsub \"p\" {\n x = 1.5\n}\nsolo {\n}\nsolo {\n items = null\n}\n",
}

var jsonSeeds = []string{
	`{"name": "nm", "opt": "o", "flag": true, "count": 3, "tags": {"a": "b"}, "list": ["p"], "nums": [1, 2], "leaf": {"k": {"n": {"v": "v", "n": 1}}}, "one": {"id": {"x": 5}}}`,
	`{"name": "nm", "expr": "${a.b}", "attr": 1, "sub": [{"s": {}}, {"t": {"x": 2}}], "other": [1]}`,
	`{"leaf": {"a": {"b": [{"v": "x", "n": null, "on": true}, {"v": "y"}]}}, "x": "1", "y": "2"}`,
	`[{"solo": {"items": ["i"], "sub": {"z": {"x": 1}}}}, {"k": "v"}]`,
	`{"name": 1, "one": [7], "leaf": {"k": [true]}, "psub": {"p": null}, "solo": [{"items": null}, 3], "sub": "x"}`,
}

func decodeAll(body hcl.Body) {
	ctx := &hcl.EvalContext{}
	{
		var c Cfg
		d := gohcl.DecodeBody(body, nil, &c)
		vf.Observe("cfg-errs", d.HasErrors())
	}
	{
		var c WithRemain
		d := gohcl.DecodeBody(body, ctx, &c)
		vf.Observe("remain-errs", d.HasErrors())
		if c.Remain != nil {
			var m map[string]string
			d = gohcl.DecodeBody(c.Remain, nil, &m)
			vf.Observe("remain-map-errs", d.HasErrors())
		}
	}
	{
		var c WithAttrs
		d := gohcl.DecodeBody(body, nil, &c)
		vf.Observe("attrs-errs", d.HasErrors())
	}
	{
		var c WithBody
		d := gohcl.DecodeBody(body, nil, &c)
		vf.Observe("body-errs", d.HasErrors())
	}
	{
		var m map[string]hcl.Expression
		d := gohcl.DecodeBody(body, nil, &m)
		vf.Observe("map-errs", d.HasErrors())
	}
}

func mutate(text string, op, off, w int) []byte {
	b := []byte(text)
	out := append([]byte{}, b[:off]...)
	switch op {
	case 0:
		if off+w > len(b) {
			w = len(b) - off
		}
		out = append(out, vf.Bytes(w)...)
		return append(out, b[off+w:]...)
	case 1:
		out = append(out, vf.Bytes(w)...)
		return append(out, b[off:]...)
	default:
		if off+w > len(b) {
			w = len(b) - off
		}
		return append(out, b[off+w:]...)
	}
}

// H_Total: seeds (well-formed and ill-typed content for the target types, native and
// JSON) with a symbolic window substituted / inserted / deleted at every offset; the
// possibly partial body is decoded into every target type. A panic is a violation
// (the engine reports target panics by itself).
func H_Total() {
	w := vf.Param("w", 1)
	stride := vf.Param("stride", 1)
	js := vf.Param("json", 0) == 1
	list := nativeSeeds
	if js {
		list = jsonSeeds
	}
	si := pick(len(list))
	text := list[si]
	op := pick(3)
	off := pick(len(text)/stride+1) * stride
	if off > len(text) {
		off = len(text)
	}
	src := mutate(text, op, off, w)
	vf.Observe("seed", si)
	vf.Observe("op", op)
	vf.Observe("off", off)
	var body hcl.Body
	if js {
		f, _ := hcljson.Parse(src, "x.json")
		if f != nil {
			body = f.Body
		}
	} else {
		f, _ := hclsyntax.ParseConfig(src, "x.hcl", hcl.InitialPos)
		if f != nil {
			body = f.Body
		}
	}
	vf.Assert(body != nil, "parser-returns-a-body")
	if body != nil {
		decodeAll(body)
	}
	vf.Reach("done")
}
