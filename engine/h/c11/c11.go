// Package c11: generated source reads back as the value it was generated from.
package c11

import (
	"unicode/utf8"

	"github.com/hashicorp/hcl/v2"
	"github.com/hashicorp/hcl/v2/hclsyntax"
	"github.com/hashicorp/hcl/v2/hclwrite"
	"github.com/zclconf/go-cty/cty"

	"verif/engine/vf"
)

func readBack(src []byte) (cty.Value, bool) {
	expr, diags := hclsyntax.ParseExpression(src, "gen.hcl", hcl.InitialPos)
	if diags.HasErrors() {
		return cty.NilVal, false
	}
	v, diags := expr.Value(nil)
	if diags.HasErrors() {
		return cty.NilVal, false
	}
	return v, true
}

// H_String: every valid-UTF-8 string of n bytes round-trips through
// TokensForValue -> bytes -> ParseExpression -> Value.
func H_String() {
	n := vf.Param("n", 2)
	s := vf.Str(n)
	vf.Assume(utf8.ValidString(s))
	val := cty.StringVal(s)
	src := hclwrite.TokensForValue(val).Bytes()
	got, ok := readBack(src)
	vf.Observe("src", src)
	vf.Assert(ok, "string-literal-parses")
	if ok {
		vf.Assert(got.Type() == cty.String && !got.IsNull() && got.AsString() == val.AsString(), "string-literal-roundtrip")
		vf.Reach("roundtrip")
	}
}

// wideSeeds: code points at the boundaries that matter to escaping - ends of the BMP,
// surrogate neighbours, format and private-use characters, astral printable and
// non-printable ranges, the last code point.
var wideSeeds = []rune{0x00ad, 0x061c, 0x200b, 0x2028, 0xd7ff, 0xe000, 0xfeff, 0xfffd, 0xffff,
	0x10000, 0x1d173, 0x1f600, 0x2fa1d, 0x30000, 0xe0001, 0xe01ef, 0xf0000, 0x10ffff}

// H_StringWide: strings around multi-byte code points. The last UTF-8 byte of the
// seed code point is symbolic over all 64 continuation values, so every code
// point of the seed's 64-block is covered, between an ASCII prefix and suffix.
func H_StringWide() {
	seed := wideSeeds[vf.Concretize(vf.Choice(len(wideSeeds)))]
	enc := []byte(string(seed))
	low := vf.Byte()
	vf.Assume(low < 64)
	enc[len(enc)-1] = 0x80 | low
	s := string(enc)
	vf.Assume(utf8.ValidString(s))
	switch vf.Concretize(vf.Choice(3)) {
	case 1:
		s = "a" + s + "0"
	case 2:
		s = s + s
	}
	val := cty.StringVal(s)
	src := hclwrite.TokensForValue(val).Bytes()
	got, ok := readBack(src)
	vf.Observe("src", src)
	vf.Assert(ok, "string-literal-parses")
	if ok {
		vf.Assert(got.Type() == cty.String && !got.IsNull() && got.AsString() == val.AsString(), "string-literal-roundtrip")
		vf.Reach("roundtrip")
	}
	// the same string as an object key and as a block label
	f := hclwrite.NewEmptyFile()
	f.Body().SetAttributeValue("k", cty.ObjectVal(map[string]cty.Value{s: cty.True}))
	f.Body().AppendNewBlock("b", []string{s})
	pf, diags := hclsyntax.ParseConfig(f.Bytes(), "w.hcl", hcl.InitialPos)
	vf.Assert(!diags.HasErrors(), "generated-file-parses")
	if !diags.HasErrors() {
		body := pf.Body.(*hclsyntax.Body)
		vf.Assert(len(body.Blocks) == 1 && len(body.Blocks[0].Labels) == 1 && body.Blocks[0].Labels[0] == val.AsString(), "label-roundtrip")
		kv, kd := body.Attributes["k"].Expr.Value(nil)
		vf.Assert(!kd.HasErrors() && kv.Type().IsObjectType() && kv.Type().HasAttribute(val.AsString()), "object-key-roundtrip")
	}
}

func pickLeaf() cty.Value {
	switch vf.Concretize(vf.Choice(9)) {
	case 0:
		return cty.True
	case 1:
		return cty.False
	case 2:
		return cty.NullVal(cty.String)
	case 3:
		return cty.NullVal(cty.DynamicPseudoType)
	case 4:
		return cty.NumberIntVal(0)
	case 5:
		return cty.NumberFloatVal(-1.5)
	case 6:
		return cty.MustParseNumberVal("123456789012345678901234567890.000000000000000000001")
	case 7:
		return cty.MustParseNumberVal("1e-30")
	}
	return cty.StringVal("s${x}")
}

func asciiKey(n int) string {
	k := vf.Str(n)
	for i := 0; i < len(k); i++ {
		vf.Assume(k[i] >= 0x20 && k[i] < 0x7f)
	}
	return k
}

// equalAfterConversion: got (read back, dynamically typed) denotes the same value as want.
func equalAfterConversion(got, want cty.Value) bool {
	if want.IsNull() {
		return got.IsNull()
	}
	if got.IsNull() {
		return false
	}
	wt := want.Type()
	switch {
	case wt == cty.String, wt == cty.Number, wt == cty.Bool:
		return got.Type() == wt && got.RawEquals(want)
	case wt.IsListType() || wt.IsSetType() || wt.IsTupleType():
		if !got.Type().IsTupleType() || got.LengthInt() != want.LengthInt() {
			return false
		}
		i := 0
		for it := want.ElementIterator(); it.Next(); i++ {
			_, ev := it.Element()
			if !equalAfterConversion(got.Index(cty.NumberIntVal(int64(i))), ev) {
				return false
			}
		}
		return true
	case wt.IsMapType() || wt.IsObjectType():
		if !got.Type().IsObjectType() || got.LengthInt() != want.LengthInt() {
			return false
		}
		for it := want.ElementIterator(); it.Next(); {
			k, ev := it.Element()
			if !got.Type().HasAttribute(k.AsString()) || !equalAfterConversion(got.GetAttr(k.AsString()), ev) {
				return false
			}
		}
		return true
	}
	return false
}

// H_Value: collections (list, set, tuple, map, object) of up to 2 leaves, map/object
// keys being symbolic printable-ASCII strings of klen bytes (identifiers, keywords,
// non-identifiers) - generated source must parse and evaluate to the same value.
func H_Value() {
	klen := vf.Param("klen", 3)
	var val cty.Value
	shape := vf.Concretize(vf.Choice(7))
	switch shape {
	case 0:
		val = pickLeaf()
	case 1:
		val = cty.ListVal([]cty.Value{cty.StringVal("a"), cty.StringVal("%{b}")})
	case 2:
		val = cty.SetVal([]cty.Value{cty.NumberIntVal(2), cty.NumberIntVal(1)})
	case 3:
		val = cty.TupleVal([]cty.Value{pickLeaf(), cty.EmptyObjectVal, cty.ListValEmpty(cty.String)})
	case 4:
		val = cty.MapVal(map[string]cty.Value{asciiKey(klen): cty.NumberIntVal(1)})
	case 5:
		val = cty.ObjectVal(map[string]cty.Value{asciiKey(klen): pickLeaf()})
	case 6:
		k1 := asciiKey(klen)
		vf.Assume(k1 != "z" && k1 != "a")
		val = cty.ObjectVal(map[string]cty.Value{k1: cty.True, "z": cty.TupleVal([]cty.Value{cty.NumberIntVal(7)}), "a": cty.NullVal(cty.Bool)})
	}
	src := hclwrite.TokensForValue(val).Bytes()
	vf.Observe("shape", shape)
	vf.Observe("src", src)
	got, ok := readBack(src)
	forFirst := false
	if shape >= 4 {
		// the finding of record: a map/object whose FIRST key (in cty's lexical order) is the keyword "for"
		first := ""
		for it := val.ElementIterator(); it.Next(); {
			k, _ := it.Element()
			first = k.AsString()
			break
		}
		forFirst = first == "for"
	}
	vf.AssertKnown(ok, "value-source-parses", "C11-for-key", forFirst)
	if ok {
		vf.Assert(equalAfterConversion(got, val), "value-roundtrip")
		vf.Reach("roundtrip")
	}
}

var negKey bool // the traversal under test has a negative number index key

func keyStep() hcl.Traverser {
	switch vf.Concretize(vf.Choice(5)) {
	case 4:
		negKey = true
		return hcl.TraverseIndex{Key: cty.NumberIntVal(-1)}
	case 0:
		return hcl.TraverseIndex{Key: cty.StringVal(asciiKey(vf.Param("klen", 3)))}
	case 1:
		return hcl.TraverseIndex{Key: cty.NumberIntVal(0)}
	case 2:
		return hcl.TraverseIndex{Key: cty.MustParseNumberVal("12345678901234567890")}
	}
	return hcl.TraverseAttr{Name: []string{"a", "for", "null"}[vf.Concretize(vf.Choice(3))]}
}

func fixedStep() hcl.Traverser {
	switch vf.Concretize(vf.Choice(4)) {
	case 0:
		return hcl.TraverseIndex{Key: cty.StringVal("k ${x}\n")}
	case 1:
		return hcl.TraverseIndex{Key: cty.NumberIntVal(3)}
	case 2:
		return hcl.TraverseAttr{Name: "for"}
	}
	return hcl.TraverseAttr{Name: "b"}
}

func sameStep(a, b hcl.Traverser) bool {
	switch a := a.(type) {
	case hcl.TraverseRoot:
		b, ok := b.(hcl.TraverseRoot)
		return ok && a.Name == b.Name
	case hcl.TraverseAttr:
		b, ok := b.(hcl.TraverseAttr)
		return ok && a.Name == b.Name
	case hcl.TraverseIndex:
		b, ok := b.(hcl.TraverseIndex)
		return ok && a.Key.RawEquals(b.Key)
	}
	return false
}

// H_Traversal: absolute traversals of up to 3 steps parse back to the same steps.
func H_Traversal() {
	negKey = false
	root := []string{"a", "for", "null", "x1"}[vf.Concretize(vf.Choice(4))]
	trav := hcl.Traversal{hcl.TraverseRoot{Name: root}}
	steps := vf.Concretize(vf.Choice(4))
	for i := 0; i < steps; i++ {
		if i == 0 {
			trav = append(trav, keyStep())
		} else {
			trav = append(trav, fixedStep())
		}
	}
	src := hclwrite.TokensForTraversal(trav).Bytes()
	vf.Observe("src", src)
	back, diags := hclsyntax.ParseTraversalAbs(src, "gen.hcl", hcl.InitialPos)
	vf.AssertKnown(!diags.HasErrors(), "traversal-source-parses", "C11-negative-index-key", negKey)
	if diags.HasErrors() {
		return
	}
	ok := len(back) == len(trav)
	for i := 0; ok && i < len(trav); i++ {
		ok = sameStep(trav[i], back[i])
	}
	vf.Assert(ok, "traversal-roundtrip")
	vf.Reach("roundtrip")
}

// H_Writer: attribute values and block labels written through the writer API read back.
func H_Writer() {
	llen := vf.Param("llen", 2)
	label := vf.Str(llen)
	vf.Assume(utf8.ValidString(label))
	f := hclwrite.NewEmptyFile()
	body := f.Body()
	v := pickLeaf()
	body.SetAttributeValue("a", v)
	blk := body.AppendNewBlock("b", []string{label, "x"})
	blk.Body().SetAttributeValue("c", cty.StringVal(label))
	src := f.Bytes()
	vf.Observe("src", src)
	pf, diags := hclsyntax.ParseConfig(src, "gen.hcl", hcl.InitialPos)
	vf.Assert(!diags.HasErrors(), "written-file-parses")
	if diags.HasErrors() {
		return
	}
	b := pf.Body.(*hclsyntax.Body)
	attr, ok := b.Attributes["a"]
	vf.Assert(ok && len(b.Blocks) == 1, "written-structure")
	if !ok || len(b.Blocks) != 1 {
		return
	}
	got, vdiags := attr.Expr.Value(nil)
	vf.Assert(!vdiags.HasErrors() && equalAfterConversion(got, v), "written-attribute-value")
	pb := b.Blocks[0]
	vf.Assert(pb.Type == "b" && len(pb.Labels) == 2 && pb.Labels[0] == cty.StringVal(label).AsString() && pb.Labels[1] == "x", "written-labels-read-back")
	if c, ok := pb.Body.Attributes["c"]; ok {
		cv, cd := c.Expr.Value(nil)
		vf.Assert(!cd.HasErrors() && cv.Type() == cty.String && cv.AsString() == cty.StringVal(label).AsString(), "written-nested-attribute")
	} else {
		vf.Assert(false, "written-nested-attribute")
	}
	vf.Reach("roundtrip")
}
