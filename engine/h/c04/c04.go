// Package c04: schema-driven body processing accounts for every item exactly once.
package c04

import (
	"github.com/hashicorp/hcl/v2"
	"github.com/hashicorp/hcl/v2/ext/dynblock"
	"github.com/hashicorp/hcl/v2/hclsyntax"
	hcljson "github.com/hashicorp/hcl/v2/json"
	"github.com/zclconf/go-cty/cty"

	"verif/engine/vf"
)

func pick(n int) int { return vf.Concretize(vf.Choice(n)) }

func letter(lo, hi byte) string {
	s := vf.Str(1)
	vf.Assume(s[0] >= lo && s[0] <= hi)
	return s
}

type blockItem struct {
	typ    string
	labels int
	form   int // JSON only: 0 = object, 1 = array with one object, 2 = null (the property stands for no block at all)
}

type bodyDesc struct {
	attrs  []string    // distinct symbolic names over a..d
	blocks []blockItem // symbolic types over w..z, 0 or 1 label, in source order
}

func genBody() bodyDesc {
	var b bodyDesc
	na := pick(vf.Param("maxattrs", 2) + 1)
	for i := 0; i < na; i++ {
		n := letter('a', 'c')
		for _, o := range b.attrs {
			vf.Assume(n != o)
		}
		b.attrs = append(b.attrs, n)
	}
	nb := pick(vf.Param("maxblocks", 2) + 1)
	for i := 0; i < nb; i++ {
		form := 0
		if vf.Param("impl", 0) == 1 {
			form = pick(3)
		}
		b.blocks = append(b.blocks, blockItem{letter('x', 'y'), pick(2), form})
	}
	return b
}

// native renders attributes then blocks; order alternates when mix is set so that
// attributes and blocks interleave.
func native(b bodyDesc, from, to int) string {
	src := ""
	items := len(b.attrs) + len(b.blocks)
	for i := from; i < to && i < items; i++ {
		if i < len(b.attrs) {
			src += b.attrs[i] + " = " + string(rune('1'+i)) + "\n"
		} else {
			blk := b.blocks[i-len(b.attrs)]
			src += blk.typ
			if blk.labels == 1 {
				src += ` "l"`
			}
			src += " {\n  inner = " + string(rune('1'+i)) + "\n}\n"
		}
	}
	return src
}

func jsonArrayBody(b bodyDesc) string {
	src := "["
	first := true
	sep := func() {
		if !first {
			src += ","
		}
		first = false
	}
	for i, a := range b.attrs {
		sep()
		src += `{"` + a + `": ` + string(rune('1'+i)) + `}`
	}
	for i, blk := range b.blocks {
		sep()
		inner := `{"inner": ` + string(rune('1'+len(b.attrs)+i)) + `}`
		if blk.labels == 1 {
			inner = `{"l": ` + inner + `}`
		}
		switch blk.form {
		case 1:
			inner = "[" + inner + "]"
		case 2:
			inner = "null"
		}
		src += `{"` + blk.typ + `": ` + inner + `}`
	}
	return src + "]"
}

type schemaDesc struct {
	attrs    []string
	required []bool
	blocks   []blockItem
}

func genSchema() schemaDesc {
	var s schemaDesc
	na := pick(3)
	for i := 0; i < na; i++ {
		n := letter('a', 'c')
		for _, o := range s.attrs {
			vf.Assume(n != o)
		}
		s.attrs = append(s.attrs, n)
		s.required = append(s.required, vf.Bool())
	}
	nb := pick(3)
	for i := 0; i < nb; i++ {
		t := letter('x', 'y')
		for _, o := range s.blocks {
			vf.Assume(t != o.typ)
		}
		s.blocks = append(s.blocks, blockItem{t, pick(2), 0})
	}
	return s
}

func (s schemaDesc) hcl(fromA, toA, fromB, toB int) *hcl.BodySchema {
	out := &hcl.BodySchema{}
	for i := fromA; i < toA && i < len(s.attrs); i++ {
		out.Attributes = append(out.Attributes, hcl.AttributeSchema{Name: s.attrs[i], Required: s.required[i]})
	}
	for i := fromB; i < toB && i < len(s.blocks); i++ {
		var ln []string
		if s.blocks[i].labels == 1 {
			ln = []string{"l"}
		}
		out.Blocks = append(out.Blocks, hcl.BlockHeaderSchema{Type: s.blocks[i].typ, LabelNames: ln})
	}
	return out
}

// model: what exhaustive processing of body b under schema s must return
type expect struct {
	attrs  []string
	blocks []string // matching block types in source order
	err    bool
}

func model(b bodyDesc, s schemaDesc, fromA, toA, fromB, toB int) (e expect, labelMismatch bool) {
	inA := func(n string) (bool, bool) {
		for i := fromA; i < toA && i < len(s.attrs); i++ {
			if s.attrs[i] == n {
				return true, s.required[i]
			}
		}
		return false, false
	}
	for _, a := range b.attrs {
		if ok, _ := inA(a); ok {
			e.attrs = append(e.attrs, a)
		} else {
			e.err = true
		}
	}
	for i := fromA; i < toA && i < len(s.attrs); i++ {
		if s.required[i] {
			found := false
			for _, a := range b.attrs {
				if a == s.attrs[i] {
					found = true
				}
			}
			if !found {
				e.err = true
			}
		}
	}
	for _, blk := range b.blocks {
		matched := false
		for i := fromB; i < toB && i < len(s.blocks); i++ {
			if s.blocks[i].typ == blk.typ {
				matched = true
				if blk.form == 2 {
					// a null property yields no block, but it is accounted for by the block type;
					// where the schema wants a label, null is not an object of labels
					if s.blocks[i].labels > 0 {
						e.err = true
					}
				} else if s.blocks[i].labels != blk.labels {
					e.err = true
					labelMismatch = true
				} else {
					e.blocks = append(e.blocks, blk.typ)
				}
			}
		}
		if !matched {
			e.err = true
		}
	}
	return
}

func sameStrings(a, b []string) bool {
	if len(a) != len(b) {
		return false
	}
	for i := range a {
		if a[i] != b[i] {
			return false
		}
	}
	return true
}

func attrNames(c *hcl.BodyContent, order []string) []string {
	var out []string
	for _, n := range order {
		if _, ok := c.Attributes[n]; ok {
			out = append(out, n)
		}
	}
	return out
}

func blockTypes(c *hcl.BodyContent) []string {
	var out []string
	for _, b := range c.Blocks {
		out = append(out, b.Type)
	}
	return out
}

func checkImpl(body hcl.Body, b bodyDesc, s schemaDesc, tag string, perTypeOrderOnly bool) {
	na, nb := len(s.attrs), len(s.blocks)
	want, mismatch := model(b, s, 0, na, 0, nb)
	if mismatch && tag == "json" {
		// a label-count mismatch surfaces in JSON only when the nested body is processed
		return
	}
	content, diags := body.Content(s.hcl(0, na, 0, nb))
	vf.Assert(diags.HasErrors() == want.err, tag+": exhaustive-processing-errors-iff-unmatched-or-missing")
	if !want.err && !diags.HasErrors() {
		vf.Assert(len(content.Attributes) == len(want.attrs) && sameStrings(attrNames(content, b.attrs), want.attrs), tag+": every-matching-attribute-exactly-once")
		got := blockTypes(content)
		if perTypeOrderOnly {
			vf.Assert(sameMultiset(got, want.blocks), tag+": every-matching-block-exactly-once")
		} else {
			vf.Assert(sameStrings(got, want.blocks), tag+": every-matching-block-exactly-once-in-source-order")
		}
		vf.Reach("clean")
	}
	// two-step processing: partial with the first part, exhaustive on the remainder with the rest
	ka, kb := pick(na+1), pick(nb+1)
	c1, remain, d1 := body.PartialContent(s.hcl(0, ka, 0, kb))
	vf.Assert(remain != nil, tag+": partial-returns-remaining-body")
	if remain == nil {
		return
	}
	c2, d2 := remain.Content(s.hcl(ka, na, kb, nb))
	twoStepErr := d1.HasErrors() || d2.HasErrors()
	vf.Assert(twoStepErr == want.err, tag+": two-step-errors-like-one-step")
	if !twoStepErr && !want.err {
		all := append(attrNames(c1, b.attrs), attrNames(c2, b.attrs)...)
		vf.Assert(len(c1.Attributes)+len(c2.Attributes) == len(want.attrs) && sameMultiset(all, want.attrs), tag+": two-step-attributes-like-one-step")
		vf.Assert(sameMultiset(append(blockTypes(c1), blockTypes(c2)...), want.blocks), tag+": two-step-blocks-like-one-step")
		vf.Reach("two-step")
	}
	// three-step chain: partial, partial on the remainder, exhaustive on the second remainder
	ka2, kb2 := ka, kb
	if vf.Param("chain3", 1) == 1 {
		ka2, kb2 = ka+pick(na-ka+1), kb+pick(nb-kb+1)
	}
	p1, r1, e1 := body.PartialContent(s.hcl(0, ka, 0, kb))
	if r1 != nil && vf.Param("chain3", 1) == 1 {
		p2, r2, e2 := r1.PartialContent(s.hcl(ka, ka2, kb, kb2))
		if r2 != nil {
			p3, e3 := r2.Content(s.hcl(ka2, na, kb2, nb))
			threeErr := e1.HasErrors() || e2.HasErrors() || e3.HasErrors()
			vf.Assert(threeErr == want.err, tag+": three-step-chain-errors-like-one-step")
			if !threeErr && !want.err {
				all := append(append(attrNames(p1, b.attrs), attrNames(p2, b.attrs)...), attrNames(p3, b.attrs)...)
				vf.Assert(sameMultiset(all, want.attrs), tag+": three-step-chain-attributes-like-one-step")
				vf.Assert(sameMultiset(append(append(blockTypes(p1), blockTypes(p2)...), blockTypes(p3)...), want.blocks), tag+": three-step-chain-blocks-like-one-step")
			}
		}
	}
	// partial processing leaves the non-matching items in the remaining body, unmodified
	w1, _ := model(b, s, 0, ka, 0, kb)
	_, rest, _ := body.PartialContent(s.hcl(0, ka, 0, kb))
	left, _, ld := rest.PartialContent(s.hcl(0, na, 0, nb))
	if !ld.HasErrors() && !want.err {
		vf.Assert(len(left.Attributes) == len(want.attrs)-len(w1.attrs), tag+": remaining-body-keeps-unprocessed-attributes")
		vf.Assert(len(left.Blocks) == len(want.blocks)-len(w1.blocks), tag+": remaining-body-keeps-unprocessed-blocks")
	}
}

func sameMultiset(a, b []string) bool {
	if len(a) != len(b) {
		return false
	}
	used := make([]bool, len(b))
	for _, x := range a {
		found := false
		for j, y := range b {
			if !used[j] && x == y {
				used[j] = true
				found = true
				break
			}
		}
		if !found {
			return false
		}
	}
	return true
}

// H_Schema: the laws of schema-driven processing for native, JSON, merged and
// dynamic-block-expanded bodies whose item names and schema names are symbolic letters.
func H_Schema() {
	b := genBody()
	s := genSchema()
	impl := vf.Param("impl", 0)
	vf.Observe("impl", impl)
	items := len(b.attrs) + len(b.blocks)
	switch impl {
	case 0:
		f, diags := hclsyntax.ParseConfig([]byte(native(b, 0, items)), "n.hcl", hcl.InitialPos)
		vf.Assert(!diags.HasErrors(), "native-renders")
		checkImpl(f.Body, b, s, "native", false)
	case 1:
		f, diags := hcljson.Parse([]byte(jsonArrayBody(b)), "j.json")
		vf.Assert(!diags.HasErrors(), "json-renders")
		checkImpl(f.Body, b, s, "json", false)
	case 2:
		cut := pick(items + 1)
		f1, d1 := hclsyntax.ParseConfig([]byte(native(b, 0, cut)), "m1.hcl", hcl.InitialPos)
		f2, d2 := hclsyntax.ParseConfig([]byte(native(b, cut, items)), "m2.hcl", hcl.InitialPos)
		vf.Assert(!d1.HasErrors() && !d2.HasErrors(), "native-renders")
		checkImpl(hcl.MergeBodies([]hcl.Body{f1.Body, f2.Body}), b, s, "merged", false)
	case 3:
		f, diags := hclsyntax.ParseConfig([]byte(native(b, 0, items)), "d.hcl", hcl.InitialPos)
		vf.Assert(!diags.HasErrors(), "native-renders")
		ctx := &hcl.EvalContext{Variables: map[string]cty.Value{}}
		checkImpl(dynblock.Expand(f.Body, ctx), b, s, "expanded", false)
	}
	vf.Reach("done")
}
