// Package c17: a parsed configuration can be evaluated concurrently.
package c17

import (
	"sync"

	"github.com/hashicorp/hcl/v2"
	"github.com/hashicorp/hcl/v2/hcldec"
	"github.com/hashicorp/hcl/v2/hclsyntax"
	hcljson "github.com/hashicorp/hcl/v2/json"
	"github.com/zclconf/go-cty/cty"

	"verif/engine/vf"
)

var exprs = []string{
	`l.*.a`,
	`l[*].a`,
	`l[*].b[*]`,
	`[for x in l : x.b.*]`,
	`m.*.a`,
	`l.*.a == l[*].a`,
	`u.*.a`,
}

func ctxFor(parent *hcl.EvalContext, i int, n int) *hcl.EvalContext {
	elem := func(tag string) cty.Value {
		return cty.ObjectVal(map[string]cty.Value{"a": cty.StringVal(tag), "b": cty.ListVal([]cty.Value{cty.StringVal(tag + "0"), cty.StringVal(tag + "1")})})
	}
	tags := []string{"p", "q", "r"}
	var elems []cty.Value
	for k := 0; k < n; k++ {
		elems = append(elems, elem(tags[i]+tags[k]))
	}
	child := parent.NewChild()
	child.Variables = map[string]cty.Value{
		"l": cty.ListVal(elems),
		"m": elems[0],
		"u": cty.UnknownVal(cty.List(elems[0].Type())),
	}
	return child
}

// H_Splat: G goroutines evaluate the SAME parsed expression, each in its own
// EvalContext (children of one shared parent); every interleaving of their
// lock-delimited sections must give each goroutine the result it gets alone,
// with no unsynchronised access to the shared syntax tree and no deadlock.
func H_Splat() {
	g := vf.Param("g", 2)
	n := vf.Param("elems", 1)
	ei := vf.Concretize(vf.Choice(len(exprs)))
	vf.Observe("expr", ei)
	expr, diags := hclsyntax.ParseExpression([]byte(exprs[ei]), "s.hcl", hcl.InitialPos)
	vf.Assert(!diags.HasErrors(), "catalogue-entry-parses")
	// the reference results come from a separately parsed copy, so that the shared
	// expression is untouched ("freshly parsed") when the goroutines start
	ref, _ := hclsyntax.ParseExpression([]byte(exprs[ei]), "s.hcl", hcl.InitialPos)
	parent := &hcl.EvalContext{Variables: map[string]cty.Value{}}
	ctxs := make([]*hcl.EvalContext, g)
	alone := make([]cty.Value, g)
	for i := 0; i < g; i++ {
		ctxs[i] = ctxFor(parent, i, n)
		alone[i], _ = ref.Value(ctxs[i])
	}
	results := make([]cty.Value, g)
	errs := make([]bool, g)
	var wg sync.WaitGroup
	for i := 0; i < g; i++ {
		wg.Add(1)
		go func(i int) {
			defer wg.Done()
			v, d := expr.Value(ctxs[i])
			results[i] = v
			errs[i] = d.HasErrors()
		}(i)
	}
	wg.Wait()
	for i := 0; i < g; i++ {
		vf.Assert(!errs[i], "concurrent-evaluation-has-no-errors")
		vf.Assert(results[i].RawEquals(alone[i]), "concurrent-result-equals-result-alone")
	}
	vf.Reach("done")
}

var bodySpec = hcldec.ObjectSpec{
	"a":    &hcldec.AttrSpec{Name: "a", Type: cty.List(cty.String)},
	"blks": &hcldec.BlockListSpec{TypeName: "blk", Nested: hcldec.ObjectSpec{"x": &hcldec.AttrSpec{Name: "x", Type: cty.List(cty.String)}}},
}

// H_Body: concurrent content extraction, variable analysis and decoding of one parsed body (native and JSON).
func H_Body() {
	g := vf.Param("g", 2)
	var body hcl.Body
	if vf.Concretize(vf.Choice(2)) == 0 {
		f, diags := hclsyntax.ParseConfig([]byte("a = l.*.a\nblk {\n  x = l[*].a\n}\n"), "b.hcl", hcl.InitialPos)
		vf.Assert(!diags.HasErrors(), "body-parses")
		body = f.Body
	} else {
		f, diags := hcljson.Parse([]byte(`{"a": "${l.*.a}", "blk": {"x": "${l[*].a}"}}`), "b.json")
		vf.Assert(!diags.HasErrors(), "body-parses")
		body = f.Body
	}
	parent := &hcl.EvalContext{Variables: map[string]cty.Value{}}
	ctxs := make([]*hcl.EvalContext, g)
	alone := make([]cty.Value, g)
	for i := 0; i < g; i++ {
		ctxs[i] = ctxFor(parent, i, 1)
		alone[i], _ = hcldec.Decode(body, bodySpec, ctxs[i])
	}
	nvars := len(hcldec.Variables(body, bodySpec))
	results := make([]cty.Value, g)
	counts := make([]int, g)
	var wg sync.WaitGroup
	for i := 0; i < g; i++ {
		wg.Add(1)
		go func(i int) {
			defer wg.Done()
			counts[i] = len(hcldec.Variables(body, bodySpec))
			results[i], _ = hcldec.Decode(body, bodySpec, ctxs[i])
		}(i)
	}
	wg.Wait()
	for i := 0; i < g; i++ {
		vf.Assert(counts[i] == nvars, "concurrent-variable-analysis-equals-analysis-alone")
		vf.Assert(results[i].RawEquals(alone[i]), "concurrent-decode-equals-decode-alone")
	}
	vf.Reach("done")
}
