// Package selftest holds harnesses that validate the engine itself.
package selftest

import (
	"fmt"
	"sort"

	"github.com/hashicorp/hcl/v2"
	"github.com/hashicorp/hcl/v2/hclsyntax"
	"github.com/hashicorp/hcl/v2/hclwrite"
	hcljson "github.com/hashicorp/hcl/v2/json"
	"github.com/zclconf/go-cty/cty"
	"github.com/zclconf/go-cty/cty/function"
	"github.com/zclconf/go-cty/cty/function/stdlib"

	"verif/engine/h/seeds"
	"verif/engine/vf"
)

func classify(b byte) int {
	switch {
	case b < 0x20:
		return 0
	case b >= 'a' && b <= 'z':
		return 1
	case b >= '0' && b <= '9':
		return 2
	}
	return 3
}

// H_Classify: trivial forking and an assertion that must fail for exactly b == 'q'.
func H_Classify() {
	b := vf.Byte()
	c := classify(b)
	vf.Observe("class", c)
	vf.Assert(!(c == 1 && b == 'q'), "not-q")
	vf.Reach("end")
}

// H_Expr: parse and evaluate a concrete expression through the whole stack.
func H_Expr() {
	expr, diags := hclsyntax.ParseExpression([]byte("1 + 2*3"), "x.hcl", hcl.InitialPos)
	vf.Assert(!diags.HasErrors(), "parse")
	v, diags := expr.Value(nil)
	vf.Assert(!diags.HasErrors(), "eval")
	f, _ := v.AsBigFloat().Float64()
	vf.Observe("val", int(f))
	vf.Assert(int(f) == 7, "seven")
	vf.Reach("end")
}

// H_Scan: lex two symbolic bytes with the real scanner.
func H_Scan() {
	src := vf.Bytes(vf.Param("n", 1))
	toks, _ := hclsyntax.LexConfig(src, "x.hcl", hcl.InitialPos)
	vf.Observe("ntoks", len(toks))
	last := toks[len(toks)-1]
	vf.Assert(last.Type == hclsyntax.TokenEOF, "eof-last")
	vf.Reach("end")
}

// H_FuncMarks: concrete: marks flow through a cty function call.
func H_FuncMarks() {
	expr, _ := hclsyntax.ParseExpression([]byte("upper(s)"), "x.hcl", hcl.InitialPos)
	ctx := &hcl.EvalContext{
		Variables: map[string]cty.Value{"s": cty.StringVal("ab").Mark("m")},
		Functions: map[string]function.Function{"upper": stdlib.UpperFunc},
	}
	v, diags := expr.Value(ctx)
	vf.Observe("errs", diags.HasErrors())
	vf.Observe("marked", v.ContainsMarked())
	u, _ := v.UnmarkDeep()
	vf.Observe("val", u.AsString())
	vf.Reach("end")
}

func H_Dbg() {
	v := cty.StringVal("ab").Mark("m")
	vf.Observe("ismarked", v.IsMarked())
	u, marks := v.UnmarkDeep()
	vf.Observe("nmarks", len(marks))
	vf.Observe("u-marked", u.IsMarked())
	w := u.WithMarks(marks)
	vf.Observe("w-marked", w.IsMarked())
	r, err := stdlib.Upper(v)
	vf.Observe("err", err != nil)
	vf.Observe("r-marked", r.IsMarked())
	r2, err := stdlib.UpperFunc.Call([]cty.Value{v})
	vf.Observe("r2-marked", r2.IsMarked())
}

func named() (ret int) {
	defer func() { ret = ret + 100 }()
	if ret == 0 {
		return 5
	}
	return 7
}

func H_Dbg2() {
	v := cty.StringVal("ab").Mark("m")
	r := v.Refine().NotNull().NewValue()
	vf.Observe("refined-marked", r.IsMarked())
	vf.Observe("named", named())
	b := v.Refine()
	x := b.NewValue()
	vf.Observe("x-marked", x.IsMarked())
}

func H_Dbg3() {
	v := cty.StringVal("ab").Mark("m")
	r2, _ := stdlib.UpperFunc.Call([]cty.Value{v})
	vf.Observe("r2-marked", r2.IsMarked())
}

// H_Corpus: translation validation of the interpreter: every seed of every corpus is
// pushed, concretely, through the main entry points; the observations (token
// types/ranges, diagnostics, formatter output, evaluated values) are compared with
// the natively compiled run of the same harness by the check driver.
func H_Corpus() {
	var all []seeds.Seed
	all = append(all, seeds.CorpusConfig...)
	all = append(all, seeds.ExtraConfig...)
	all = append(all, seeds.CorpusExpr...)
	all = append(all, seeds.CorpusTemplate...)
	all = append(all, seeds.ExtraTemplate...)
	all = append(all, seeds.CorpusTraversal...)
	all = append(all, seeds.CorpusJSON...)
	all = append(all, seeds.ExtraJSON...)
	si := vf.Concretize(vf.Choice(len(all)))
	src := []byte(all[si].Text)
	vf.Observe("seed", all[si].Name)
	toks, _ := hclsyntax.LexConfig(src, "c.hcl", hcl.InitialPos)
	digest := ""
	for _, t := range toks {
		digest += fmt.Sprintf("%c%d:%d-%d:%d;", rune(t.Type), t.Range.Start.Line, t.Range.Start.Column, t.Range.End.Line, t.Range.End.Column)
	}
	vf.Observe("tokens", digest)
	f, diags := hclsyntax.ParseConfig(src, "c.hcl", hcl.InitialPos)
	vf.Observe("diags", diags.Error())
	vf.Observe("format", string(hclwrite.Format(src)))
	if !diags.HasErrors() {
		attrs, _ := f.Body.JustAttributes()
		names := make([]string, 0, len(attrs))
		for n := range attrs {
			names = append(names, n)
		}
		sort.Strings(names)
		// (a single variable: hcl's "did you mean" suggestion depends on Go's map order when several names qualify)
		ctx := &hcl.EvalContext{Variables: map[string]cty.Value{"b": cty.StringVal("B")}, Functions: map[string]function.Function{"upper": stdlib.UpperFunc}}
		for _, n := range names {
			v, vd := attrs[n].Expr.Value(ctx)
			vf.Observe("val:"+n, fmt.Sprintf("%#v / %s", v, vd.Error()))
		}
	}
	e, ediags := hclsyntax.ParseExpression(src, "e.hcl", hcl.InitialPos)
	vf.Observe("expr-diags", ediags.Error())
	if !ediags.HasErrors() {
		v, vd := e.Value(nil)
		vf.Observe("expr-val", fmt.Sprintf("%#v / %s", v, vd.Error()))
	}
	_, tdiags := hclsyntax.ParseTemplate(src, "t.hcl", hcl.InitialPos)
	vf.Observe("tmpl-diags", tdiags.Error())
	jf, jdiags := hcljson.Parse(src, "j.json")
	vf.Observe("json-diags", jdiags.Error())
	if !jdiags.HasErrors() {
		attrs, ad := jf.Body.JustAttributes()
		vf.Observe("json-attrs", fmt.Sprintf("%d / %s", len(attrs), ad.Error()))
	}
	vf.Reach("end")
}
