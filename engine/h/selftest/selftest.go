// Package selftest holds harnesses that validate the engine itself.
package selftest

import (
	"github.com/hashicorp/hcl/v2"
	"github.com/hashicorp/hcl/v2/hclsyntax"

	"verif/engine/vf"
)

func classify(b byte) int {
	switch {
	case b < 0x20:
		return 0
	case b >= 'a' && b <= 'z':
		return 1
	case b >= '0' && b <= '9':
		return 2
	}
	return 3
}

// H_Classify: trivial forking and an assertion that must fail for exactly b == 'q'.
func H_Classify() {
	b := vf.Byte()
	c := classify(b)
	vf.Observe("class", c)
	vf.Assert(!(c == 1 && b == 'q'), "not-q")
	vf.Reach("end")
}

// H_Expr: parse and evaluate a concrete expression through the whole stack.
func H_Expr() {
	expr, diags := hclsyntax.ParseExpression([]byte("1 + 2*3"), "x.hcl", hcl.InitialPos)
	vf.Assert(!diags.HasErrors(), "parse")
	v, diags := expr.Value(nil)
	vf.Assert(!diags.HasErrors(), "eval")
	f, _ := v.AsBigFloat().Float64()
	vf.Observe("val", int(f))
	vf.Assert(int(f) == 7, "seven")
	vf.Reach("end")
}

// H_Scan: lex two symbolic bytes with the real scanner.
func H_Scan() {
	src := vf.Bytes(vf.Param("n", 1))
	toks, _ := hclsyntax.LexConfig(src, "x.hcl", hcl.InitialPos)
	vf.Observe("ntoks", len(toks))
	last := toks[len(toks)-1]
	vf.Assert(last.Type == hclsyntax.TokenEOF, "eof-last")
	vf.Reach("end")
}
