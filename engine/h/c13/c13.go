// Package c13: the JSON syntax accepts exactly JSON and maps literals faithfully.
package c13

import (
	"unicode/utf8"

	"github.com/hashicorp/hcl/v2"
	"github.com/hashicorp/hcl/v2/hclsyntax"
	hcljson "github.com/hashicorp/hcl/v2/json"
	"github.com/zclconf/go-cty/cty"

	"verif/engine/vf"
)

// ---------------------------------------------------------------------------
// Reference: a strict RFC 8259 recogniser/decoder, written from the RFC grammar.

type kind int

const (
	kInvalid kind = iota
	kNull
	kTrue
	kFalse
	kNumber
	kString
	kArray
	kObject
)

type node struct {
	k        kind
	text     []byte // number literal text, or decoded string content
	elems    []*node
	keys     [][]byte
	off, end int // numbers: byte range in the source
}

type ref struct {
	b     []byte
	i     int
	loose bool // accept any byte >= 0x80 inside strings (UTF-8 validity not judged)
}

func (r *ref) ws() {
	for r.i < len(r.b) {
		switch r.b[r.i] {
		case ' ', '\t', '\n', '\r':
			r.i++
		default:
			return
		}
	}
}

func (r *ref) lit(s string) bool {
	if r.i+len(s) > len(r.b) {
		return false
	}
	for k := 0; k < len(s); k++ {
		if r.b[r.i+k] != s[k] {
			return false
		}
	}
	r.i += len(s)
	return true
}

func isDigit(c byte) bool { return '0' <= c && c <= '9' }

func hexv(c byte) int {
	switch {
	case '0' <= c && c <= '9':
		return int(c - '0')
	case 'a' <= c && c <= 'f':
		return int(c-'a') + 10
	case 'A' <= c && c <= 'F':
		return int(c-'A') + 10
	}
	return -1
}

func (r *ref) number() *node {
	s := r.i
	if r.i < len(r.b) && r.b[r.i] == '-' {
		r.i++
	}
	if r.i >= len(r.b) {
		return nil
	}
	if r.b[r.i] == '0' {
		r.i++
	} else if '1' <= r.b[r.i] && r.b[r.i] <= '9' {
		for r.i < len(r.b) && isDigit(r.b[r.i]) {
			r.i++
		}
	} else {
		return nil
	}
	if r.i < len(r.b) && r.b[r.i] == '.' {
		r.i++
		if r.i >= len(r.b) || !isDigit(r.b[r.i]) {
			return nil
		}
		for r.i < len(r.b) && isDigit(r.b[r.i]) {
			r.i++
		}
	}
	if r.i < len(r.b) && (r.b[r.i] == 'e' || r.b[r.i] == 'E') {
		r.i++
		if r.i < len(r.b) && (r.b[r.i] == '+' || r.b[r.i] == '-') {
			r.i++
		}
		if r.i >= len(r.b) || !isDigit(r.b[r.i]) {
			return nil
		}
		for r.i < len(r.b) && isDigit(r.b[r.i]) {
			r.i++
		}
	}
	return &node{k: kNumber, text: r.b[s:r.i], off: s, end: r.i}
}

// str parses a JSON string at r.i (which is at the opening quote) and returns its decoded content.
func (r *ref) str() ([]byte, bool) {
	r.i++
	var out []byte
	for {
		if r.i >= len(r.b) {
			return nil, false
		}
		c := r.b[r.i]
		switch {
		case c == '"':
			r.i++
			return out, true
		case c < 0x20:
			return nil, false
		case c == '\\':
			r.i++
			if r.i >= len(r.b) {
				return nil, false
			}
			e := r.b[r.i]
			r.i++
			switch e {
			case '"', '\\', '/':
				out = append(out, e)
			case 'b':
				out = append(out, '\b')
			case 'f':
				out = append(out, '\f')
			case 'n':
				out = append(out, '\n')
			case 'r':
				out = append(out, '\r')
			case 't':
				out = append(out, '\t')
			case 'u':
				if r.i+4 > len(r.b) {
					return nil, false
				}
				cp := rune(0)
				for k := 0; k < 4; k++ {
					h := hexv(r.b[r.i+k])
					if h < 0 {
						return nil, false
					}
					cp = cp*16 + rune(h)
				}
				r.i += 4
				if 0xd800 <= cp && cp < 0xdc00 && r.i+6 <= len(r.b) && r.b[r.i] == '\\' && r.b[r.i+1] == 'u' {
					lo := rune(0)
					okLo := true
					for k := 0; k < 4; k++ {
						h := hexv(r.b[r.i+2+k])
						if h < 0 {
							okLo = false
							break
						}
						lo = lo*16 + rune(h)
					}
					if okLo && 0xdc00 <= lo && lo < 0xe000 {
						cp = (cp-0xd800)<<10 | (lo - 0xdc00) + 0x10000
						r.i += 6
					}
				}
				if 0xd800 <= cp && cp < 0xe000 {
					cp = utf8.RuneError // lone surrogate: replacement character
				}
				out = utf8.AppendRune(out, cp)
			default:
				return nil, false
			}
		case c < 0x80:
			out = append(out, c)
			r.i++
		default:
			if r.loose {
				out = append(out, c)
				r.i++
				continue
			}
			cp, size := utf8.DecodeRune(r.b[r.i:])
			if cp == utf8.RuneError && size <= 1 {
				return nil, false
			}
			out = append(out, r.b[r.i:r.i+size]...)
			r.i += size
		}
	}
}

func (r *ref) value(depth int) *node {
	r.ws()
	if r.i >= len(r.b) || depth > 8 {
		return nil
	}
	var n *node
	switch c := r.b[r.i]; {
	case c == '{':
		r.i++
		n = &node{k: kObject}
		r.ws()
		if r.i < len(r.b) && r.b[r.i] == '}' {
			r.i++
			break
		}
		for {
			r.ws()
			if r.i >= len(r.b) || r.b[r.i] != '"' {
				return nil
			}
			key, ok := r.str()
			if !ok {
				return nil
			}
			r.ws()
			if r.i >= len(r.b) || r.b[r.i] != ':' {
				return nil
			}
			r.i++
			v := r.value(depth + 1)
			if v == nil {
				return nil
			}
			n.keys = append(n.keys, key)
			n.elems = append(n.elems, v)
			r.ws()
			if r.i >= len(r.b) {
				return nil
			}
			if r.b[r.i] == ',' {
				r.i++
				continue
			}
			if r.b[r.i] == '}' {
				r.i++
				break
			}
			return nil
		}
	case c == '[':
		r.i++
		n = &node{k: kArray}
		r.ws()
		if r.i < len(r.b) && r.b[r.i] == ']' {
			r.i++
			break
		}
		for {
			v := r.value(depth + 1)
			if v == nil {
				return nil
			}
			n.elems = append(n.elems, v)
			r.ws()
			if r.i >= len(r.b) {
				return nil
			}
			if r.b[r.i] == ',' {
				r.i++
				continue
			}
			if r.b[r.i] == ']' {
				r.i++
				break
			}
			return nil
		}
	case c == '"':
		s, ok := r.str()
		if !ok {
			return nil
		}
		n = &node{k: kString, text: s}
	case c == '-' || isDigit(c):
		n = r.number()
		if n == nil {
			return nil
		}
	case c == 't':
		if !r.lit("true") {
			return nil
		}
		n = &node{k: kTrue}
	case c == 'f':
		if !r.lit("false") {
			return nil
		}
		n = &node{k: kFalse}
	case c == 'n':
		if !r.lit("null") {
			return nil
		}
		n = &node{k: kNull}
	default:
		return nil
	}
	r.ws()
	return n
}

// parseRef returns the value denoted by src when it is one valid JSON text.
func parseRef(src []byte, loose bool) *node {
	r := &ref{b: src, loose: loose}
	n := r.value(0)
	if n == nil || r.i != len(src) {
		return nil
	}
	return n
}

// ---------------------------------------------------------------------------

// Code points with Grapheme_Cluster_Break=Prepend (Unicode 15, the version of go-textseg/v15).
func isPrepend(r rune) bool {
	switch {
	case 0x0600 <= r && r <= 0x0605, r == 0x06DD, r == 0x070F, 0x0890 <= r && r <= 0x0891, r == 0x08E2, r == 0x0D4E,
		r == 0x110BD, r == 0x110CD, 0x111C2 <= r && r <= 0x111C3, r == 0x1193F, r == 0x11941, r == 0x11A3A,
		0x11A84 <= r && r <= 0x11A89, r == 0x11D46, r == 0x11F02:
		return true
	}
	return false
}

// sigPrependBeforeQuote: a Prepend-class character immediately followed by '"' or '\'.
func sigPrependBeforeQuote(src []byte) bool {
	for i := 0; i < len(src); {
		r, size := utf8.DecodeRune(src[i:])
		if isPrepend(r) && i+size < len(src) && (src[i+size] == '"' || src[i+size] == '\\') {
			return true
		}
		i += size
	}
	return false
}

// H_Accept: every byte string of n bytes; accepted without error <=> valid JSON text.
func H_Accept() {
	n := vf.Param("n", 3)
	src := vf.Bytes(n)
	expr, diags := hcljson.ParseExpression(src, "x.json")
	vf.Assert(expr != nil, "non-nil-result")
	accepted := !diags.HasErrors()
	strict := parseRef(src, false) != nil
	loose := strict || parseRef(src, true) != nil
	vf.Observe("accepted", accepted)
	// valid JSON (valid UTF-8 inside strings) must be accepted
	vf.AssertKnown(!strict || accepted, "valid-json-accepted", "C13-prepend", sigPrependBeforeQuote(src))
	// anything accepted must be JSON, at least when UTF-8 validity inside strings is not judged
	vf.Assert(!accepted || loose, "accepted-is-json")
	if accepted {
		vf.Reach("accepted")
	} else {
		vf.Reach("rejected")
	}
	// File-level entry point: additionally the root must be an object or array.
	_, fdiags := hcljson.Parse(src, "x.json")
	faccepted := !fdiags.HasErrors()
	rn := parseRef(src, true)
	rootOK := rn != nil && (rn.k == kObject || rn.k == kArray)
	vf.Assert(!faccepted || rootOK, "file-accepted-is-json-object-or-array")
	vf.AssertKnown(!(strict && rootOK) || faccepted, "valid-json-file-accepted", "C13-prepend", sigPrependBeforeQuote(src))
}

func matches(v cty.Value, n *node) bool {
	switch n.k {
	case kNull:
		return v.IsNull() && v.Type() == cty.DynamicPseudoType
	case kTrue:
		return v.RawEquals(cty.True)
	case kFalse:
		return v.RawEquals(cty.False)
	case kString:
		return v.Type() == cty.String && !v.IsNull() && v.AsString() == string(n.text)
	case kNumber:
		want, err := cty.ParseNumberVal(string(n.text))
		return err == nil && v.RawEquals(want)
	case kArray:
		if !v.Type().IsTupleType() || v.LengthInt() != len(n.elems) {
			return false
		}
		for i, e := range n.elems {
			if !matches(v.Index(cty.NumberIntVal(int64(i))), e) {
				return false
			}
		}
		return true
	case kObject:
		if !v.Type().IsObjectType() || v.LengthInt() != len(n.elems) {
			return false
		}
		for i, e := range n.elems {
			k := string(n.keys[i])
			if !v.Type().HasAttribute(k) || !matches(v.GetAttr(k), e) {
				return false
			}
		}
		return true
	}
	return false
}

func pinNumbers(src []byte, n *node) {
	if n.k == kNumber {
		for i := n.off; i < n.end; i++ {
			src[i] = byte(vf.Concretize(int(src[i])))
		}
	}
	for _, e := range n.elems {
		pinNumbers(src, e)
	}
}

func hasDupKey(n *node) bool {
	for i := range n.keys {
		for j := i + 1; j < len(n.keys); j++ {
			if string(n.keys[i]) == string(n.keys[j]) {
				return true
			}
		}
	}
	for _, e := range n.elems {
		if hasDupKey(e) {
			return true
		}
	}
	return false
}

// H_Value: ASCII texts of n bytes; literal-mode value mapping against the reference decoder.
func H_Value() {
	n := vf.Param("n", 3)
	src := vf.Bytes(n)
	for _, b := range src {
		vf.Assume(b < 0x80)
	}
	rn := parseRef(src, false)
	vf.Assume(rn != nil)
	// Arbitrary-precision number conversion is cty/math/big code with no
	// solver theory behind it: number literals are made concrete (every
	// feasible digit string is enumerated) before the code under test runs.
	pinNumbers(src, rn)
	expr, diags := hcljson.ParseExpression(src, "x.json")
	vf.Assert(!diags.HasErrors(), "valid-json-accepted")
	if diags.HasErrors() {
		return
	}
	v, vdiags := expr.Value(nil)
	if hasDupKey(rn) {
		vf.Assert(vdiags.HasErrors(), "duplicate-name-rejected-at-evaluation")
		vf.Reach("dup")
		return
	}
	vf.Assert(!vdiags.HasErrors(), "literal-evaluates")
	if vdiags.HasErrors() {
		return
	}
	vf.Assert(matches(v, rn), "literal-value-mapping")
	vf.Reach("mapped")
}

// H_Template: a JSON string with m symbolic ASCII content bytes, full-expression mode:
// the value equals what the native template parser assigns to the content; in literal
// mode the content is returned verbatim.
func H_Template() {
	m := vf.Param("m", 2)
	content := vf.Bytes(m)
	for _, b := range content {
		vf.Assume(b >= 0x20 && b < 0x7f && b != '"' && b != '\\')
	}
	src := append(append([]byte{'"'}, content...), '"')
	expr, diags := hcljson.ParseExpression(src, "x.json")
	vf.Assert(!diags.HasErrors(), "string-accepted")
	lit, ldiags := expr.Value(nil)
	vf.Assert(!ldiags.HasErrors() && lit.Type() == cty.String && lit.AsString() == string(content), "literal-mode-verbatim")
	ctx := &hcl.EvalContext{Variables: map[string]cty.Value{"a": cty.StringVal("A")}}
	got, gdiags := expr.Value(ctx)
	texpr, tdiags := hclsyntax.ParseTemplate(content, "x.json", hcl.InitialPos)
	if tdiags.HasErrors() {
		vf.Assert(gdiags.HasErrors(), "template-syntax-error-propagates")
		vf.Reach("template-error")
		return
	}
	want, wdiags := texpr.Value(ctx)
	vf.Assert(gdiags.HasErrors() == wdiags.HasErrors(), "template-eval-errors-agree")
	if !wdiags.HasErrors() && !gdiags.HasErrors() {
		vf.Assert(got.RawEquals(want), "template-value-agrees")
		vf.Reach("template-ok")
	}
}

var templateSeeds = []string{
	`%{ if a == "A" }x%{ else }y%{ endif }`,
	`%{ for v in [a] }${v},%{ endfor }`,
	`%%{ ${a} $${a} %{ if true }t%{ endif }`,
	`x %{~ if true ~} y %{~ endif ~} z`,
	`${a}%{ if false }n%{ endif }$$%%`,
}

// H_TemplateSeed: as H_Template for longer contents - a seed template with
// directives, escapes and interpolations (quotes escaped for JSON) in which a
// window of w bytes at a symbolic offset is replaced by symbolic ASCII bytes.
func H_TemplateSeed() {
	w := vf.Param("w", 1)
	seed := []byte(templateSeeds[vf.Concretize(vf.Choice(len(templateSeeds)))])
	off := vf.Concretize(vf.Choice(len(seed) - w + 1))
	win := vf.Bytes(w)
	content := append([]byte{}, seed...)
	for i, b := range win {
		vf.Assume(b-0x20 < 0x5f && b != '"' && b != '\\')
		content[off+i] = b
	}
	// JSON-escape the quotes of the content
	src := []byte{'"'}
	for _, b := range content {
		if b == '"' {
			src = append(src, '\\')
		}
		src = append(src, b)
	}
	src = append(src, '"')
	expr, diags := hcljson.ParseExpression(src, "x.json")
	vf.Assert(!diags.HasErrors(), "string-accepted")
	lit, ldiags := expr.Value(nil)
	vf.Assert(!ldiags.HasErrors() && lit.Type() == cty.String && lit.AsString() == string(content), "literal-mode-verbatim")
	ctx := &hcl.EvalContext{Variables: map[string]cty.Value{"a": cty.StringVal("A")}}
	got, gdiags := expr.Value(ctx)
	texpr, tdiags := hclsyntax.ParseTemplate(content, "x.json", hcl.InitialPos)
	if tdiags.HasErrors() {
		vf.Assert(gdiags.HasErrors(), "template-syntax-error-propagates")
		vf.Reach("template-error")
		return
	}
	want, wdiags := texpr.Value(ctx)
	vf.Assert(gdiags.HasErrors() == wdiags.HasErrors(), "template-eval-errors-agree")
	if !wdiags.HasErrors() && !gdiags.HasErrors() {
		vf.Assert(got.RawEquals(want), "template-value-agrees")
		vf.Reach("template-ok")
	}
}

var windowContexts = [][2]string{
	{`["`, `"]`},
	{`{"a":"`, `"}`},
	{`{"`, `":1}`},
	{`["x`, `y",2]`},
	{`[`, `]`},
	{`{"a":`, `}`},
	{`[1,`, `,2]`},
	{`{"a":[`, `],"b":null}`},
	// the window is followed by an escape sequence inside the string
	{`["`, `\""]`},
	{`["`, `\\","x"]`},
}

// H_Window: a concrete JSON context with a window of m fully symbolic bytes
// (all 256 values): accepted <=> valid, so that strings, numbers, keywords and
// punctuation are exercised with realistic neighbours (closing quotes,
// brackets, separators) that n-byte whole texts cannot reach.
func H_Window() {
	m := vf.Param("m", 2)
	c := vf.Choice(len(windowContexts))
	ci := vf.Concretize(c)
	win := vf.Bytes(m)
	src := []byte(windowContexts[ci][0])
	src = append(src, win...)
	src = append(src, windowContexts[ci][1]...)
	expr, diags := hcljson.ParseExpression(src, "x.json")
	vf.Assert(expr != nil, "non-nil-result")
	accepted := !diags.HasErrors()
	strict := parseRef(src, false) != nil
	loose := strict || parseRef(src, true) != nil
	vf.Observe("ctx", ci)
	vf.Observe("accepted", accepted)
	vf.AssertKnown(!strict || accepted, "valid-json-accepted", "C13-prepend", sigPrependBeforeQuote(src))
	vf.Assert(!accepted || loose, "accepted-is-json")
	if accepted {
		vf.Reach("accepted")
	} else {
		vf.Reach("rejected")
	}
}

// H_ObjectNames: an object value with two property names that are symbolic letters:
// the parser accepts it whether or not the names collide, and evaluation - in
// literal-only mode and in full-expression mode, at the top level and nested in an
// array or an object - rejects it exactly when they do.
func H_ObjectNames() {
	nm := vf.Bytes(2)
	for _, c := range nm {
		vf.Assume(c-'a' < 3)
	}
	obj := `{"` + string(nm[:1]) + `":1,"` + string(nm[1:]) + `":true}`
	src := obj
	nest := vf.Concretize(vf.Choice(3))
	switch nest {
	case 1:
		src = "[" + obj + "]"
	case 2:
		src = `{"k":` + obj + `}`
	}
	expr, diags := hcljson.ParseExpression([]byte(src), "o.json")
	vf.Assert(!diags.HasErrors(), "duplicate-names-are-accepted-by-the-parser")
	for pass := 0; pass < 2; pass++ {
		var ctx *hcl.EvalContext
		if pass == 1 {
			ctx = &hcl.EvalContext{}
		}
		v, vd := expr.Value(ctx)
		dup := nm[0] == nm[1]
		vf.Assert(vd.HasErrors() == dup, "duplicate-names-rejected-at-evaluation")
		if vd.HasErrors() || dup {
			vf.Reach("duplicate")
			continue
		}
		switch nest {
		case 1:
			v = v.Index(cty.NumberIntVal(0))
		case 2:
			v = v.GetAttr("k")
		}
		ok := v.Type().IsObjectType() && v.LengthInt() == 2 &&
			v.GetAttr(string(nm[:1])).RawEquals(cty.NumberIntVal(1)) && v.GetAttr(string(nm[1:])).RawEquals(cty.True)
		vf.Assert(ok, "object-maps-to-its-properties")
		vf.Reach("distinct")
	}
}
