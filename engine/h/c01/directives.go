package c01

import (
	"sort"
	"strconv"

	"github.com/hashicorp/hcl/v2"
	"github.com/hashicorp/hcl/v2/hclsyntax"
	"github.com/zclconf/go-cty/cty"

	"verif/engine/vf"
)

func dletter() string {
	c := vf.Byte()
	vf.Assume(c-'a' < 3)
	return string([]byte{c})
}

// H_Directives: template directives (if / else / for over lists and maps, with and
// without strip markers on one line) and heredocs (plain and flush) evaluate to the
// string the specification's template section describes, computed here directly over
// a symbolic condition, a list of 0-2 symbolic letters and a map with symbolic values.
func H_Directives() {
	c := vf.Bool()
	n := vf.Concretize(vf.Choice(3))
	elems := make([]string, n)
	vals := make([]cty.Value, n)
	for i := range elems {
		elems[i] = dletter()
		vals[i] = cty.StringVal(elems[i])
	}
	l := cty.ListValEmpty(cty.String)
	if n > 0 {
		l = cty.ListVal(vals)
	}
	mv1, mv2 := dletter(), dletter()
	m := map[string]string{"k2": mv2, "k1": mv1}
	s := dletter()
	ctx := &hcl.EvalContext{Variables: map[string]cty.Value{
		"c": cty.BoolVal(c), "l": l, "s": cty.StringVal(s),
		"m": cty.MapVal(map[string]cty.Value{"k2": cty.StringVal(mv2), "k1": cty.StringVal(mv1)}),
	}}
	which := vf.Concretize(vf.Choice(12))
	vf.Observe("form", which)
	var src, want string
	quoted := true
	switch which {
	case 0:
		src = `%{ if c }A%{ endif }`
		if c {
			want = "A"
		}
	case 1:
		src = `p%{ if c }A${s}%{ else }B%{ endif }q`
		if c {
			want = "pA" + s + "q"
		} else {
			want = "pBq"
		}
	case 2:
		src = `x%{ for v in l }${v},%{ endfor }y`
		want = "x"
		for _, e := range elems {
			want += e + ","
		}
		want += "y"
	case 3:
		src = `%{ for i, v in l }${i}=${v};%{ endfor }`
		for i, e := range elems {
			want += strconv.Itoa(i) + "=" + e + ";"
		}
	case 4:
		src = `%{ for v in l }%{ if v == "a" }A%{ else }${v}%{ endif }%{ endfor }`
		for _, e := range elems {
			if e == "a" {
				want += "A"
			} else {
				want += e
			}
		}
	case 5:
		src = `x %{~ if c ~} A %{~ endif ~} y`
		want = "x"
		if c {
			want += "A"
		}
		want += "y"
	case 6:
		src = `x %{ if c ~} A %{ else ~} B %{~ endif } y`
		if c {
			want = "x A  y" // "A " keeps its trailing space: the else marker strips what FOLLOWS it
		} else {
			want = "x B y"
		}
	case 7:
		src = `%{ for k, v in m }${k}=${v} %{ endfor }`
		keys := []string{}
		for k := range m {
			keys = append(keys, k)
		}
		sort.Strings(keys)
		for _, k := range keys {
			want += k + "=" + m[k] + " "
		}
	case 8:
		quoted = false
		src = "<<EOT\n  a ${s}\nb\nEOT\n"
		want = "  a " + s + "\nb\n"
	case 9:
		quoted = false
		src = "<<-EOT\n    a\n      b ${s}\n    %{ if c }T%{ endif }\n    EOT\n"
		want = "a\n  b " + s + "\n"
		if c {
			want += "T"
		}
		want += "\n"
	case 10:
		src = `${ c ? "T${s}" : "F" }%{ for v in l }[${ v == s ? "=" : v }]%{ endfor }`
		if c {
			want = "T" + s
		} else {
			want = "F"
		}
		for _, e := range elems {
			if e == s {
				want += "[=]"
			} else {
				want += "[" + e + "]"
			}
		}
	case 11:
		src = `%{ for v in l ~} ${v} %{~ endfor }|`
		for _, e := range elems {
			want += e
		}
		want += "|"
	}
	text := src
	if quoted {
		text = `"` + src + `"`
	}
	expr, diags := hclsyntax.ParseExpression([]byte(text), "d.hcl", hcl.InitialPos)
	vf.Assert(!diags.HasErrors(), "directive-template-parses")
	if diags.HasErrors() {
		return
	}
	got, vd := expr.Value(ctx)
	vf.Assert(!vd.HasErrors() && got.Type() == cty.String && !got.IsNull(), "directive-template-evaluates-to-a-string")
	if !vd.HasErrors() && got.Type() == cty.String && !got.IsNull() {
		vf.Assert(got.AsString() == want, "directive-template-value")
	}
	vf.Reach("evaluated")
}
