// Package c01: expression evaluation conforms to the language specification - the parts
// decided here are operator precedence/associativity with operand typing, the
// conditional operator, and quoted string literal decoding (escape table and
// template-introducer escapes), each against a short reference written from
// hclsyntax/spec.md.
package c01

import (
	"math"

	"github.com/hashicorp/hcl/v2"
	"github.com/hashicorp/hcl/v2/hclsyntax"
	"github.com/zclconf/go-cty/cty"

	"verif/engine/vf"
)

func pick(n int) int { return vf.Concretize(vf.Choice(n)) }

// ---- reference semantics for operator expressions (spec: "Operations", "Operators")

type val struct {
	isBool bool
	b      bool
	n      float64
	err    bool
	skip   bool // outcome not fixed by this reference (error inside a short-circuited operand)
}

var ops = []string{"*", "/", "%", "+", "-", ">", ">=", "<", "<=", "==", "!=", "&&", "||"}

// binding power per the spec's operator precedence table, highest first; all left-associative.
func level(op string) int {
	switch op {
	case "*", "/", "%":
		return 6
	case "+", "-":
		return 5
	case ">", ">=", "<", "<=":
		return 4
	case "==", "!=":
		return 3
	case "&&":
		return 2
	}
	return 1
}

func apply(op string, x, y val) val {
	if x.skip || y.skip {
		return val{skip: true}
	}
	if op == "&&" || op == "||" {
		// one operand decides; whether an error inside the OTHER operand is reported is a
		// choice of hcl's (symmetric) short-circuit evaluation that the specification leaves open
		decides := func(v val) bool { return !v.err && v.isBool && v.b == (op == "||") }
		if (decides(x) && y.err) || (decides(y) && x.err) {
			return val{skip: true}
		}
	}
	if x.err || y.err {
		return val{err: true}
	}
	switch op {
	case "*", "/", "%", "+", "-":
		if x.isBool || y.isBool {
			return val{err: true}
		}
		switch op {
		case "*":
			return val{n: x.n * y.n}
		case "/":
			return val{n: x.n / y.n}
		case "%":
			return val{n: math.Mod(x.n, y.n)}
		case "+":
			return val{n: x.n + y.n}
		}
		return val{n: x.n - y.n}
	case ">", ">=", "<", "<=":
		if x.isBool || y.isBool {
			return val{err: true}
		}
		switch op {
		case ">":
			return val{isBool: true, b: x.n > y.n}
		case ">=":
			return val{isBool: true, b: x.n >= y.n}
		case "<":
			return val{isBool: true, b: x.n < y.n}
		}
		return val{isBool: true, b: x.n <= y.n}
	case "==", "!=":
		eq := x.isBool == y.isBool && ((x.isBool && x.b == y.b) || (!x.isBool && x.n == y.n))
		if op == "!=" {
			eq = !eq
		}
		return val{isBool: true, b: eq}
	case "&&", "||":
		if !x.isBool || !y.isBool {
			return val{err: true}
		}
		if op == "&&" {
			return val{isBool: true, b: x.b && y.b}
		}
		return val{isBool: true, b: x.b || y.b}
	}
	return val{err: true}
}

// parseFrom: precedence climbing; every operator is left-associative, so the right
// operand of an operator only absorbs operators that bind strictly tighter.
func parseFrom(operands []val, operators []string, pos *int, min int) val {
	lhs := operands[*pos]
	for *pos < len(operators) && level(operators[*pos]) >= min {
		op := operators[*pos]
		*pos++
		rhs := parseFrom(operands, operators, pos, level(op)+1)
		lhs = apply(op, lhs, rhs)
	}
	return lhs
}

type operand struct {
	src string
	v   val
}

var operandPool = []operand{
	{"1", val{n: 1}}, {"2", val{n: 2}}, {"true", val{isBool: true, b: true}}, {"false", val{isBool: true, b: false}}, {"3", val{n: 3}}, {"0.5", val{n: 0.5}},
	{"7", val{n: 7}}, {"(-2)", val{n: -2}}, {"!true", val{isBool: true, b: false}}, {"-3", val{n: -3}},
}

// H_Precedence: operand (op operand){1..k} with SYMBOLICALLY chosen operators and
// operands, in three layouts; the real parser+evaluator against the reference.
func H_Precedence() {
	k := vf.Param("ops", 2)
	// two operands are variables whose values are symbolic (a boolean and a number from {1,4})
	vb := vf.Bool()
	vn := 1.0
	if vf.Bool() {
		vn = 4.0
	}
	pool := append([]operand{{"vb", val{isBool: true, b: vb}}, {"vn", val{n: vn}}}, operandPool...)
	ctx := &hcl.EvalContext{Variables: map[string]cty.Value{"vb": cty.BoolVal(vb), "vn": cty.NumberFloatVal(vn)}}
	var operands []val
	var operators []string
	src := ""
	sep := []string{" ", "", "\n"}[pick(vf.Param("layouts", 3))]
	if sep == "\n" {
		src = "(\n"
	}
	for i := 0; i <= k; i++ {
		o := pool[pick(vf.Param("pool", len(pool)))]
		if i > 0 {
			op := ops[pick(len(ops))]
			operators = append(operators, op)
			if sep == "" && op == "-" {
				src += " " // identifiers may contain '-': "true-1" is one identifier
			}
			src += sep + op + sep
		}
		operands = append(operands, o.v)
		src += o.src
	}
	if sep == "\n" {
		src += "\n)"
	}
	vf.Observe("src", src)
	want := parseFrom(operands, operators, new(int), 1)
	expr, diags := hclsyntax.ParseExpression([]byte(src), "p.hcl", hcl.InitialPos)
	vf.Assert(!diags.HasErrors(), "operator-expression-parses")
	if diags.HasErrors() {
		return
	}
	got, vdiags := expr.Value(ctx)
	if want.skip {
		vf.Reach("short-circuit")
		return
	}
	if math.IsNaN(want.n) || math.IsInf(want.n, 0) {
		vf.Reach("non-finite")
		return
	}
	vf.Assert(vdiags.HasErrors() == want.err, "error-exactly-when-the-specification-says-so")
	if want.err || vdiags.HasErrors() {
		vf.Reach("error")
		return
	}
	if want.isBool {
		vf.Assert(got.Type() == cty.Bool && got.True() == want.b, "boolean-result-per-precedence-table")
	} else {
		f, _ := got.AsBigFloat().Float64()
		vf.Assert(got.Type() == cty.Number && math.Abs(f-want.n) < 1e-9, "numeric-result-per-precedence-table")
	}
	vf.Reach("value")
}

// H_Conditional: c ? t : f binds weaker than every binary operator and is right-associative.
func H_Conditional() {
	conds := []operand{{"true", val{isBool: true, b: true}}, {"false", val{isBool: true, b: false}}, {"1 < 2", val{isBool: true, b: true}}, {"2 == 3 || false", val{isBool: true, b: false}}}
	c1, c2 := conds[pick(len(conds))], conds[pick(len(conds))]
	nums := []operand{operandPool[0], operandPool[1], operandPool[4], operandPool[5], operandPool[6]}
	a, b, c := nums[pick(5)], nums[pick(5)], nums[pick(5)]
	op := []string{"+", "*", "-"}[pick(3)]
	// c1 ? a op b : c2 ? b : c   ==  c1 ? (a op b) : (c2 ? b : c)
	src := c1.src + " ? " + a.src + " " + op + " " + b.src + " : " + c2.src + " ? " + b.src + " : " + c.src
	var want float64
	if c1.v.b {
		want = apply(op, a.v, b.v).n
	} else if c2.v.b {
		want = b.v.n
	} else {
		want = c.v.n
	}
	expr, diags := hclsyntax.ParseExpression([]byte(src), "c.hcl", hcl.InitialPos)
	vf.Assert(!diags.HasErrors(), "conditional-parses")
	if diags.HasErrors() {
		return
	}
	got, vdiags := expr.Value(nil)
	vf.Assert(!vdiags.HasErrors(), "conditional-evaluates")
	if !vdiags.HasErrors() {
		f, _ := got.AsBigFloat().Float64()
		vf.Assert(math.Abs(f-want) < 1e-9, "conditional-groups-per-specification")
	}
	vf.Reach("done")
}

// ---- reference decoder for quoted string literals (spec: "Template Literals" / string escapes)

func hexv(c byte) int {
	switch {
	case '0' <= c && c <= '9':
		return int(c - '0')
	case 'a' <= c && c <= 'f':
		return int(c-'a') + 10
	case 'A' <= c && c <= 'F':
		return int(c-'A') + 10
	}
	return -1
}

// refDecode returns the string denoted by the content of a quoted literal, or ok=false
// when the content is not a valid literal. templ is true when the content starts a
// template sequence (interpolation/directive), which this harness leaves to C13/C07.
func refDecode(b []byte) (out []byte, ok bool, templ bool) {
	for i := 0; i < len(b); {
		c := b[i]
		switch {
		case c == '"' || c == '\n' || c == '\r':
			return nil, false, false
		case c == '\\':
			if i+1 >= len(b) {
				return nil, false, false
			}
			e := b[i+1]
			switch e {
			case 'n':
				out = append(out, '\n')
				i += 2
			case 'r':
				out = append(out, '\r')
				i += 2
			case 't':
				out = append(out, '\t')
				i += 2
			case '"':
				out = append(out, '"')
				i += 2
			case '\\':
				out = append(out, '\\')
				i += 2
			case 'u', 'U':
				n := 4
				if e == 'U' {
					n = 8
				}
				if i+2+n > len(b) {
					return nil, false, false
				}
				cp := 0
				for k := 0; k < n; k++ {
					h := hexv(b[i+2+k])
					if h < 0 {
						return nil, false, false
					}
					cp = cp*16 + h
				}
				out = append(out, string(rune(cp))...)
				i += 2 + n
			default:
				return nil, false, false
			}
		case (c == '$' || c == '%') && i+1 < len(b) && b[i+1] == '{':
			return nil, true, true
		case (c == '$' || c == '%') && i+2 < len(b) && b[i+1] == c && b[i+2] == '{':
			out = append(out, c, '{')
			i += 3
		default:
			out = append(out, c)
			i++
		}
	}
	return out, true, false
}

// H_StringLit: every ASCII content of n bytes between quotes.
func H_StringLit() {
	n := vf.Param("n", 3)
	content := vf.Bytes(n)
	for _, c := range content {
		vf.Assume(c < 0x80)
	}
	want, ok, templ := refDecode(content)
	if templ {
		vf.Reach("template")
		return
	}
	// an unescaped quote ends the literal early; what follows is a different program
	for i := 0; i < len(content); i++ {
		if content[i] == '\\' {
			i++ // the escaped character (an escaped backslash does not escape what follows it)
			continue
		}
		if content[i] == '"' {
			vf.Reach("early-quote")
			return
		}
	}
	src := append(append([]byte{'"'}, content...), '"')
	expr, diags := hclsyntax.ParseExpression(src, "s.hcl", hcl.InitialPos)
	if !ok {
		vf.Assert(diags.HasErrors(), "malformed-string-literal-is-rejected")
		vf.Reach("malformed")
		return
	}
	vf.Assert(!diags.HasErrors(), "well-formed-string-literal-parses")
	if diags.HasErrors() {
		return
	}
	got, vdiags := expr.Value(nil)
	vf.Assert(!vdiags.HasErrors() && got.Type() == cty.String, "string-literal-evaluates-to-string")
	if !vdiags.HasErrors() && got.Type() == cty.String {
		vf.Assert(got.AsString() == cty.StringVal(string(want)).AsString(), "string-literal-decodes-per-escape-table")
	}
	vf.Reach("decoded")
}

// H_UnicodeEscape: \u00XY and \U000000XY with two SYMBOLIC hex digits decoded by the real scanner/parser vs the reference.
func H_UnicodeEscape() {
	long := vf.Bool()
	hx := vf.Bytes(2)
	for _, c := range hx {
		vf.Assume(hexv(c) >= 0)
	}
	content := []byte{'e', '\\'}
	if long {
		content = append(content, 'U', '0', '0', '0', '0', '0', '0')
	} else {
		content = append(content, 'u', '0', '0')
	}
	content = append(content, hx...)
	want, ok, _ := refDecode(content)
	vf.Assert(ok, "reference-accepts-unicode-escape")
	src := append(append([]byte{'"'}, content...), '"')
	expr, diags := hclsyntax.ParseExpression(src, "u.hcl", hcl.InitialPos)
	vf.Assert(!diags.HasErrors(), "unicode-escape-parses")
	if diags.HasErrors() {
		return
	}
	got, vdiags := expr.Value(nil)
	vf.Assert(!vdiags.HasErrors() && got.Type() == cty.String, "unicode-escape-evaluates")
	if !vdiags.HasErrors() && got.Type() == cty.String {
		vf.Assert(got.AsString() == cty.StringVal(string(want)).AsString(), "unicode-escape-decodes-to-the-code-point")
	}
	vf.Reach("decoded")
}

// ---- index / attribute / splat / for over small collections with symbolic elements

func elemStr() string {
	s := vf.Str(1)
	vf.Assume(s[0] >= 'a' && s[0] <= 'c')
	return s
}

type expect struct {
	err bool
	v   cty.Value
}

func ok(v cty.Value) expect { return expect{v: v} }

var bad = expect{err: true}

// H_Collections: the result (value, or error) of index, attribute, legacy index,
// splat and for expressions over collections whose elements are symbolic strings,
// against values the specification assigns (computed here over Go slices/maps).
func H_Collections() {
	e0, e1 := elemStr(), elemStr()
	s0, s1 := cty.StringVal(e0), cty.StringVal(e1)
	ctx := &hcl.EvalContext{Variables: map[string]cty.Value{
		"l": cty.ListVal([]cty.Value{s0, s1}),
		"m": cty.MapVal(map[string]cty.Value{"a": s0, "b": s1}),
		"t": cty.TupleVal([]cty.Value{s0, cty.True}),
		"o": cty.ObjectVal(map[string]cty.Value{"a": s0, "b": cty.True}),
		"z": cty.NullVal(cty.String),
		"one": s0,
	}}
	type tc struct {
		src  string
		want func() expect
	}
	eq := e0 == e1
	cases := []tc{
		{`l[0]`, func() expect { return ok(s0) }}, {`l[1]`, func() expect { return ok(s1) }}, {`l[2]`, func() expect { return bad }},
		{`l[-1]`, func() expect { return bad }}, {`l["1"]`, func() expect { return ok(s1) }}, {`l[z]`, func() expect { return bad }},
		{`l.0`, func() expect { return ok(s0) }}, {`l[0.5]`, func() expect { return bad }},
		{`m["a"]`, func() expect { return ok(s0) }}, {`m.b`, func() expect { return ok(s1) }}, {`m["c"]`, func() expect { return bad }}, {`m[0]`, func() expect { return bad }},
		{`t[0]`, func() expect { return ok(s0) }}, {`t[1]`, func() expect { return ok(cty.True) }}, {`t[2]`, func() expect { return bad }},
		{`o.a`, func() expect { return ok(s0) }}, {`o["b"]`, func() expect { return ok(cty.True) }}, {`o.c`, func() expect { return bad }},
		{`one.a`, func() expect { return bad }}, {`one[0]`, func() expect { return bad }},
		{`l[*]`, func() expect { return ok(cty.ListVal([]cty.Value{s0, s1})) }},
		{`l.*`, func() expect { return ok(cty.ListVal([]cty.Value{s0, s1})) }},
		{`t[*]`, func() expect { return ok(cty.TupleVal([]cty.Value{s0, cty.True})) }},
		{`one[*]`, func() expect { return ok(cty.TupleVal([]cty.Value{s0})) }},
		{`z[*]`, func() expect { return ok(cty.EmptyTupleVal) }},
		{`[o, o][*].a`, func() expect { return ok(cty.TupleVal([]cty.Value{s0, s0})) }},
		{`[for x in l : x]`, func() expect { return ok(cty.TupleVal([]cty.Value{s0, s1})) }},
		{`[for i, x in l : i]`, func() expect { return ok(cty.TupleVal([]cty.Value{cty.NumberIntVal(0), cty.NumberIntVal(1)})) }},
		{`[for k, v in m : "${k}${v}"]`, func() expect {
			return ok(cty.TupleVal([]cty.Value{cty.StringVal("a" + e0), cty.StringVal("b" + e1)}))
		}},
		{`{for k, v in m : k => v}`, func() expect { return ok(cty.ObjectVal(map[string]cty.Value{"a": s0, "b": s1})) }},
		{`[for x in l : x if x == one]`, func() expect {
			if eq {
				return ok(cty.TupleVal([]cty.Value{s0, s1}))
			}
			return ok(cty.TupleVal([]cty.Value{s0}))
		}},
		{`{for x in l : x => 1}`, func() expect {
			if eq {
				return bad // duplicate key without grouping
			}
			return ok(cty.ObjectVal(map[string]cty.Value{e0: cty.NumberIntVal(1), e1: cty.NumberIntVal(1)}))
		}},
		{`{for i, x in l : x => i...}`, func() expect {
			if eq {
				return ok(cty.ObjectVal(map[string]cty.Value{e0: cty.TupleVal([]cty.Value{cty.NumberIntVal(0), cty.NumberIntVal(1)})}))
			}
			return ok(cty.ObjectVal(map[string]cty.Value{e0: cty.TupleVal([]cty.Value{cty.NumberIntVal(0)}), e1: cty.TupleVal([]cty.Value{cty.NumberIntVal(1)})}))
		}},
		{`[for x in one : x]`, func() expect { return bad }},
		{`one == l[1] ? "same" : "diff"`, func() expect {
			if eq {
				return ok(cty.StringVal("same"))
			}
			return ok(cty.StringVal("diff"))
		}},
	}
	ci := pick(len(cases))
	c := cases[ci]
	vf.Observe("case", c.src)
	expr, diags := hclsyntax.ParseExpression([]byte(c.src), "k.hcl", hcl.InitialPos)
	vf.Assert(!diags.HasErrors(), "collection-expression-parses")
	if diags.HasErrors() {
		return
	}
	got, vdiags := expr.Value(ctx)
	want := c.want()
	vf.Assert(vdiags.HasErrors() == want.err, "error-exactly-when-the-specification-says-so: "+c.src)
	if !want.err && !vdiags.HasErrors() {
		vf.Assert(got.RawEquals(want.v), "value-per-specification: "+c.src)
		vf.Reach("value")
	} else {
		vf.Reach("error")
	}
}

func isSpaceByte(c byte) bool { return c == ' ' || c == '\t' || c == '\n' || c == '\r' }

// H_Strip: strip markers remove all whitespace of the ADJACENT template literal, and
// only that (spec "Template Literals"); literals are symbolic over {space, tab, LF, y}.
func H_Strip() {
	n := vf.Param("n", 2)
	lit := func() []byte {
		b := vf.Bytes(n)
		for _, c := range b {
			vf.Assume(c == ' ' || c == '\t' || c == '\n' || c == 'y')
		}
		return b
	}
	l1, l2 := lit(), lit()
	left, right := vf.Bool(), vf.Bool()
	src := append([]byte{}, l1...)
	if left {
		src = append(src, "${~ "...)
	} else {
		src = append(src, "${ "...)
	}
	src = append(src, `" X "`...)
	if right {
		src = append(src, " ~}"...)
	} else {
		src = append(src, " }"...)
	}
	src = append(src, l2...)
	w1, w2 := l1, l2
	if left {
		for len(w1) > 0 && isSpaceByte(w1[len(w1)-1]) {
			w1 = w1[:len(w1)-1]
		}
	}
	if right {
		for len(w2) > 0 && isSpaceByte(w2[0]) {
			w2 = w2[1:]
		}
	}
	want := string(w1) + " X " + string(w2)
	// finding of record: only the literal TOKEN next to the marker (one line) is trimmed
	lineTrimmed := func() string {
		a, b := l1, l2
		if left {
			// the literal token next to the marker: the text after the last newline, or the
			// last line including its newline when l1 ends with one
			end := len(a)
			if end > 0 && a[end-1] == '\n' {
				end--
			}
			for end > 0 && isSpaceByte(a[end-1]) && a[end-1] != '\n' {
				end--
			}
			a = a[:end]
		}
		if right {
			st := 0
			for st < len(b) && isSpaceByte(b[st]) && b[st] != '\n' {
				st++
			}
			if st < len(b) && b[st] == '\n' {
				st++
			}
			b = b[st:]
		}
		return string(a) + " X " + string(b)
	}()
	sig := lineTrimmed != want
	expr, diags := hclsyntax.ParseTemplate(src, "s.tmpl", hcl.InitialPos)
	vf.Assert(!diags.HasErrors(), "template-with-strip-markers-parses")
	if diags.HasErrors() {
		return
	}
	got, vdiags := expr.Value(nil)
	vf.Assert(!vdiags.HasErrors() && got.Type() == cty.String, "template-evaluates")
	if !vdiags.HasErrors() && got.Type() == cty.String {
		vf.AssertKnown(got.AsString() == want, "strip-markers-trim-exactly-the-adjacent-literal", "C01-strip-marker-stops-at-line", sig)
	}
	vf.Reach("done")
}
