// Package c20: static analysis of an expression agrees with its evaluation and round-trips.
package c20

import (
	"github.com/hashicorp/hcl/v2"
	"github.com/hashicorp/hcl/v2/ext/typeexpr"
	"github.com/hashicorp/hcl/v2/hclsyntax"
	hcljson "github.com/hashicorp/hcl/v2/json"
	"github.com/zclconf/go-cty/cty"
	"github.com/zclconf/go-cty/cty/function"
	"github.com/zclconf/go-cty/cty/function/stdlib"
	"unicode/utf8"

	"verif/engine/h/gen"
	"verif/engine/vf"
)

func pick(n int) int { return vf.Concretize(vf.Choice(n)) }

func keyBytes(n int) string {
	k := vf.Str(n)
	for i := 0; i < len(k); i++ {
		vf.Assume(k[i] >= 0x20 && k[i] < 0x7f && k[i] != '"' && k[i] != '\\' && k[i] != '$' && k[i] != '%')
	}
	return k
}

// scope: nested objects / lists / maps whose string leaves are symbolic.
func scope(leaf string) *hcl.EvalContext {
	inner := cty.ObjectVal(map[string]cty.Value{
		"a": cty.StringVal(leaf),
		"b": cty.ListVal([]cty.Value{cty.StringVal("l0"), cty.StringVal(leaf)}),
		"k": cty.MapVal(map[string]cty.Value{"k": cty.StringVal("mk"), "a": cty.StringVal(leaf)}),
	})
	outer := cty.ObjectVal(map[string]cty.Value{
		"a": inner,
		"b": cty.TupleVal([]cty.Value{inner, cty.StringVal("t1")}),
		"k": cty.MapVal(map[string]cty.Value{"k": inner, "a": inner}),
	})
	return &hcl.EvalContext{
		Variables: map[string]cty.Value{"a": outer, "b": cty.ListVal([]cty.Value{outer, outer})},
		Functions: map[string]function.Function{"upper": stdlib.UpperFunc, "concat": stdlib.ConcatFunc},
	}
}

func step(klen int) string {
	switch pick(10) {
	case 0:
		return ".a"
	case 1:
		return ".b"
	case 2:
		return "[0]"
	case 3:
		return "[1]"
	case 4:
		return `["` + keyBytes(klen) + `"]`
	case 5:
		return ".0"
	case 6:
		return "[\n0\n]"
	case 7:
		return "[*]"
	case 8:
		return ".*"
	}
	return ".k"
}

func sameSteps(x, y hcl.Traversal) bool {
	if len(x) != len(y) {
		return false
	}
	for i := range x {
		switch a := x[i].(type) {
		case hcl.TraverseRoot:
			b, ok := y[i].(hcl.TraverseRoot)
			if !ok || a.Name != b.Name {
				return false
			}
		case hcl.TraverseAttr:
			b, ok := y[i].(hcl.TraverseAttr)
			if !ok || a.Name != b.Name {
				return false
			}
		case hcl.TraverseIndex:
			b, ok := y[i].(hcl.TraverseIndex)
			if !ok || !a.Key.RawEquals(b.Key) {
				return false
			}
		default:
			return false
		}
	}
	return true
}

// H_Traversal: traversal-shaped expressions of up to `steps` steps.
func H_Traversal() {
	klen := vf.Param("klen", 1)
	src := []string{"a", "b", "null", "true"}[pick(4)]
	n := pick(vf.Param("steps", 2) + 1)
	for i := 0; i < n; i++ {
		src += step(klen)
	}
	vf.Observe("src", src)
	leaf := vf.Str(1)
	vf.Assume(leaf[0] >= 0x20 && leaf[0] < 0x7f)
	ctx := scope(leaf)
	expr, diags := hclsyntax.ParseExpression([]byte(src), "t.hcl", hcl.InitialPos)
	if diags.HasErrors() {
		// text the expression parser rejects must not be accepted as a traversal either
		_, tdiags := hclsyntax.ParseTraversalAbs([]byte(src), "t.hcl", hcl.InitialPos)
		vf.Assert(tdiags.HasErrors(), "traversal-parser-rejects-what-expression-parser-rejects")
		vf.Reach("parse-error")
		return
	}
	trav, sdiags := hcl.AbsTraversalForExpr(expr)
	ptrav, pdiags := hclsyntax.ParseTraversalAbs([]byte(src), "t.hcl", hcl.InitialPos)
	// a text accepted by the stand-alone traversal parser denotes the same traversal as the expression parser
	if !pdiags.HasErrors() {
		vf.Assert(!sdiags.HasErrors(), "standalone-traversal-parser-accepts-only-static-traversals")
		if !sdiags.HasErrors() {
			vf.Assert(sameSteps(trav, ptrav), "standalone-traversal-parser-same-steps")
		}
		vf.Reach("standalone-accepted")
	}
	if sdiags.HasErrors() {
		vf.Reach("not-a-traversal")
		return
	}
	if root := trav.RootName(); root == "true" || root == "false" || root == "null" {
		// keywords evaluate as literals; their traversal view is only a way to read the keyword (ExprAsKeyword)
		if kw := hcl.ExprAsKeyword(expr); len(trav) == 1 {
			vf.Assert(kw == root, "keyword-view-is-root-name")
		}
		vf.Reach("keyword-root")
		return
	}
	// the static view describes what evaluation computes
	v1, d1 := trav.TraverseAbs(ctx)
	v2, d2 := expr.Value(ctx)
	vf.Assert(d1.HasErrors() == d2.HasErrors(), "static-traversal-same-diagnostics-outcome")
	if !d1.HasErrors() && !d2.HasErrors() {
		vf.Assert(v1.RawEquals(v2), "static-traversal-same-value")
	}
	// relative view and keyword view
	if rel, rdiags := hcl.RelTraversalForExpr(expr); !rdiags.HasErrors() {
		vf.Assert(len(rel) == len(trav), "relative-traversal-same-length")
		// applied to the scope as an object, the relative view computes the same thing
		rv, rd := rel.TraverseRel(cty.ObjectVal(ctx.Variables))
		vf.Assert(rd.HasErrors() == d2.HasErrors() && (rd.HasErrors() || rv.RawEquals(v2)), "relative-traversal-from-scope-object-same-value")
	}
	if kw := hcl.ExprAsKeyword(expr); kw != "" {
		vf.Assert(len(trav) == 1 && trav.RootName() == kw, "keyword-view-is-root-name")
	}
	// taking the static views must not change the expression: it still evaluates, and reads, the same
	v3, d3 := expr.Value(ctx)
	trav2, s2 := hcl.AbsTraversalForExpr(expr)
	vf.Assert(d3.HasErrors() == d2.HasErrors() && (d3.HasErrors() || v3.RawEquals(v2)), "static-views-leave-evaluation-unchanged")
	vf.Assert(!s2.HasErrors() && sameSteps(trav, trav2), "static-views-leave-the-traversal-unchanged")
	vf.Reach("traversal")
}

// H_JSONTraversal: a JSON string expression's static traversal equals the native one for its content.
func H_JSONTraversal() {
	klen := vf.Param("klen", 1)
	src := []string{"a", "b"}[pick(2)]
	n := pick(3)
	for i := 0; i < n; i++ {
		switch pick(5) {
		case 0:
			src += ".a"
		case 1:
			src += "[0]"
		case 2:
			src += `['` + keyBytes(klen) + `']`
		case 3:
			src += ".0"
		case 4:
			src += "[*]"
		}
	}
	// single quotes are not HCL syntax; the content uses double quotes escaped for JSON
	native := ""
	jsonContent := ""
	for i := 0; i < len(src); i++ {
		if src[i] == '\'' {
			native += `"`
			jsonContent += `\"`
		} else {
			native += string(src[i])
			jsonContent += string(src[i])
		}
	}
	vf.Observe("native", native)
	// in the JSON syntax a string is read as a traversal directly from its content
	je, jdiags := hcljson.ParseExpression([]byte(`"`+jsonContent+`"`), "t.json")
	vf.Assert(!jdiags.HasErrors(), "json-string-parses")
	ne, ndiags := hclsyntax.ParseExpression([]byte(native), "t.hcl", hcl.InitialPos)
	if ndiags.HasErrors() {
		vf.Reach("native-error")
		return
	}
	jt, jtd := hcl.AbsTraversalForExpr(je)
	nt, ntd := hcl.AbsTraversalForExpr(ne)
	// what the JSON syntax accepts as a traversal denotes the same traversal as the native expression
	if !jtd.HasErrors() {
		vf.Assert(!ntd.HasErrors(), "json-traversal-is-a-native-traversal")
	}
	if !jtd.HasErrors() && !ntd.HasErrors() {
		vf.Assert(sameSteps(jt, nt), "json-and-native-same-traversal")
		vf.Reach("traversal")
	} else {
		vf.Reach("not-a-traversal")
	}
}

// H_Static: list / map / call views: the parts evaluate to the elements of the whole.
func H_Static() {
	leaf := vf.Str(1)
	vf.Assume(leaf[0] >= 0x20 && leaf[0] < 0x7f && leaf[0] != 'p' && leaf[0] != 'q')
	ctx := scope(leaf)
	which := pick(8)
	vf.Observe("which", which)
	var expr hcl.Expression
	switch which {
	case 0:
		expr = mustNative(`[a.a.a, "x", 1, [a.a.b]]`)
	case 1:
		expr = mustNative(`{p = a.a.a, "q" = 2, (a.a.a) = 3}`)
	case 2:
		expr = mustNative(`concat(a.a.b, ["z"], b[0].a.b...)`)
	case 3:
		expr = mustNative(`upper(a.a.a)`)
	case 4:
		expr = mustJSON(`["${a.a.a}", "x", 1, ["${a.a.b[0]}"]]`)
	case 5:
		expr = mustJSON(`{"p": "${a.a.a}", "q": 2}`)
	case 6:
		expr = mustNative(`[]`)
	case 7:
		expr = mustNative(`{}`)
	}
	whole, wd := expr.Value(ctx)
	if wd.HasErrors() {
		vf.Reach("eval-error")
		return
	}
	if parts, diags := hcl.ExprList(expr); !diags.HasErrors() {
		vf.Assert(whole.Type().IsTupleType() && whole.LengthInt() == len(parts), "list-view-length")
		for i, p := range parts {
			v, d := p.Value(ctx)
			vf.Assert(!d.HasErrors() && v.RawEquals(whole.Index(cty.NumberIntVal(int64(i)))), "list-view-elements-are-the-wholes-elements")
		}
		vf.Reach("list")
	}
	if pairs, diags := hcl.ExprMap(expr); !diags.HasErrors() {
		vf.Assert(whole.Type().IsObjectType() && whole.LengthInt() == len(pairs), "map-view-length")
		for _, kv := range pairs {
			k, kd := kv.Key.Value(ctx)
			v, d := kv.Value.Value(ctx)
			ok := !kd.HasErrors() && !d.HasErrors() && k.Type() == cty.String && whole.Type().HasAttribute(k.AsString()) && v.RawEquals(whole.GetAttr(k.AsString()))
			vf.Assert(ok, "map-view-pairs-are-the-wholes-attributes")
		}
		vf.Reach("map")
	}
	if call, diags := hcl.ExprCall(expr); !diags.HasErrors() {
		// re-applying the function to the separately evaluated arguments gives the whole
		fn := ctx.Functions[call.Name]
		var args []cty.Value
		ok := true
		for i, a := range call.Arguments {
			v, d := a.Value(ctx)
			if d.HasErrors() {
				ok = false
				break
			}
			if i == len(call.Arguments)-1 && which == 2 {
				for it := v.ElementIterator(); it.Next(); {
					_, ev := it.Element()
					args = append(args, ev)
				}
			} else {
				args = append(args, v)
			}
		}
		if ok {
			got, err := fn.Call(args)
			vf.Assert(err == nil && got.RawEquals(whole), "call-view-arguments-are-the-wholes-arguments")
		}
		vf.Reach("call")
	}
}

func mustNative(src string) hcl.Expression {
	e, diags := hclsyntax.ParseExpression([]byte(src), "s.hcl", hcl.InitialPos)
	vf.Assert(!diags.HasErrors(), "catalogue-entry-parses")
	return e
}

func mustJSON(src string) hcl.Expression {
	e, diags := hcljson.ParseExpression([]byte(src), "s.json")
	vf.Assert(!diags.HasErrors(), "catalogue-entry-parses")
	return e
}

func ident(n int) string {
	s := vf.Str(n)
	if vf.Param("anyname", 0) == 1 {
		// any attribute name that the type expression syntax can express: a valid
		// identifier, ASCII or not (TypeString is documented for types that Type and
		// TypeConstraint can produce)
		vf.Assume(utf8.ValidString(s))
		vf.Assume(hclsyntax.ValidIdentifier(s))
		return s
	}
	for i := 0; i < len(s); i++ {
		if i == 0 {
			vf.Assume((s[i] >= 'a' && s[i] <= 'z') || (s[i] >= 'A' && s[i] <= 'Z') || s[i] == '_')
		} else {
			vf.Assume((s[i] >= 'a' && s[i] <= 'z') || (s[i] >= '0' && s[i] <= '9') || s[i] == '_' || s[i] == '-')
		}
	}
	return s
}

var topDepth int

func attrName(depth, n int, fixed string) string {
	if depth == topDepth && vf.Param("symnames", 1) == 1 {
		return ident(n)
	}
	return fixed
}

func genType(depth int) cty.Type {
	max := 10
	if depth <= 0 {
		max = 4
	}
	switch pick(max) {
	case 0:
		return cty.String
	case 1:
		return cty.Number
	case 2:
		return cty.Bool
	case 3:
		return cty.DynamicPseudoType
	case 4:
		return cty.List(genType(depth - 1))
	case 5:
		return cty.Set(genType(depth - 1))
	case 6:
		return cty.Map(genType(depth - 1))
	case 7:
		return cty.Tuple([]cty.Type{genType(depth - 1), cty.String})
	case 8:
		return cty.Object(map[string]cty.Type{attrName(depth, vf.Param("ilen", 2), "x_1"): genType(depth - 1)})
	}
	return cty.Object(map[string]cty.Type{"a": cty.Bool, attrName(depth, 1, "b"): genType(depth - 1)})
}

func jsonQuote(s string) string {
	out := []byte{'"'}
	for i := 0; i < len(s); i++ {
		switch s[i] {
		case '"', '\\':
			out = append(out, '\\', s[i])
		case '\n':
			out = append(out, '\\', 'n')
		default:
			out = append(out, s[i]) // bytes, so that multi-byte characters stay intact
		}
	}
	return string(append(out, '"'))
}

// H_TypeExpr: TypeString(t) parses back to t, in native syntax and inside a JSON string.
func H_TypeExpr() {
	topDepth = vf.Param("depth", 2)
	t := genType(topDepth)
	s := typeexpr.TypeString(t)
	vf.Observe("type", s)
	e, diags := hclsyntax.ParseExpression([]byte(s), "t.hcl", hcl.InitialPos)
	vf.Assert(!diags.HasErrors(), "type-string-parses")
	if !diags.HasErrors() {
		back, tdiags := typeexpr.TypeConstraint(e)
		vf.Assert(!tdiags.HasErrors() && back.Equals(t), "type-string-roundtrip-native")
	}
	je, jdiags := hcljson.ParseExpression([]byte(jsonQuote(s)), "t.json")
	vf.Assert(!jdiags.HasErrors(), "type-string-json-parses")
	if !jdiags.HasErrors() {
		back, tdiags := typeexpr.TypeConstraint(je)
		vf.Assert(!tdiags.HasErrors() && back.Equals(t), "type-string-roundtrip-json")
	}
	vf.Reach("done")
}

// H_StaticGen: for every grammar-generated expression, whatever static view exists
// (traversal, keyword, call, list, map) must agree with evaluation.
func H_StaticGen() {
	e := gen.Expr(vf.Param("depth", 1), 0)
	vf.Observe("src", e)
	leaf := vf.Str(1)
	vf.Assume(leaf[0] >= 'a' && leaf[0] <= 'z')
	inner := cty.ObjectVal(map[string]cty.Value{"x": cty.ListVal([]cty.Value{cty.StringVal(leaf), cty.StringVal("x1")}), "for": cty.StringVal("kw"), "y1": cty.True, "z": cty.StringVal(leaf)})
	ctx := &hcl.EvalContext{
		Variables: map[string]cty.Value{
			"b": cty.ObjectVal(map[string]cty.Value{"x": inner.GetAttr("x"), "for": cty.StringVal("kw"), "y1": cty.True, "k": cty.TupleVal([]cty.Value{cty.StringVal("k0"), inner}), "0": inner}),
			"c": cty.ObjectVal(map[string]cty.Value{"d": cty.StringVal(leaf)}),
			"l": cty.ListVal([]cty.Value{cty.StringVal(leaf), cty.StringVal("l1")}),
			"m": cty.MapVal(map[string]cty.Value{"a": cty.StringVal(leaf)}),
		},
		Functions: map[string]function.Function{"f": stdlib.CoalesceListFunc, "upper": stdlib.UpperFunc},
	}
	expr, diags := hclsyntax.ParseExpression([]byte(e), "g.hcl", hcl.InitialPos)
	if diags.HasErrors() {
		vf.Reach("parse-error")
		return
	}
	whole, wd := expr.Value(ctx)
	if trav, td := hcl.AbsTraversalForExpr(expr); !td.HasErrors() {
		root := trav.RootName()
		if root != "true" && root != "false" && root != "null" {
			v, d := trav.TraverseAbs(ctx)
			vf.Assert(d.HasErrors() == wd.HasErrors(), "static-traversal-same-diagnostics-outcome")
			if !d.HasErrors() && !wd.HasErrors() {
				vf.Assert(v.RawEquals(whole), "static-traversal-same-value")
			}
		}
		vf.Reach("traversal")
	}
	if wd.HasErrors() {
		vf.Reach("eval-error")
		return
	}
	if parts, d := hcl.ExprList(expr); !d.HasErrors() {
		vf.Assert(whole.Type().IsTupleType() && whole.LengthInt() == len(parts), "list-view-length")
		for i, p := range parts {
			v, pd := p.Value(ctx)
			vf.Assert(!pd.HasErrors() && v.RawEquals(whole.Index(cty.NumberIntVal(int64(i)))), "list-view-elements-are-the-wholes-elements")
		}
		vf.Reach("list")
	}
	if pairs, d := hcl.ExprMap(expr); !d.HasErrors() {
		for _, kv := range pairs {
			k, kd := kv.Key.Value(ctx)
			v, vd := kv.Value.Value(ctx)
			if kd.HasErrors() || vd.HasErrors() {
				continue
			}
			ok := k.Type() == cty.String && whole.Type().IsObjectType() && whole.Type().HasAttribute(k.AsString()) && v.RawEquals(whole.GetAttr(k.AsString()))
			vf.Assert(ok, "map-view-pairs-are-the-wholes-attributes")
		}
		vf.Reach("map")
	}
	// taking every static view must leave the expression as it was
	_, _ = hcl.RelTraversalForExpr(expr)
	_ = hcl.ExprAsKeyword(expr)
	_, _ = hcl.ExprCall(expr)
	again, ad := expr.Value(ctx)
	vf.Assert(!ad.HasErrors() && again.RawEquals(whole), "static-views-leave-evaluation-unchanged")
	vf.Reach("done")
}
