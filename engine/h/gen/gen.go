// Package gen generates expression source text from a small grammar by symbolic
// choices (each choice is concretised, so every derivation within the depth bound
// is explored): the stand-in for parser-driven token-stream enumeration.
package gen

import "verif/engine/vf"

func pick(n int) int { return vf.Concretize(vf.Choice(n)) }

// sp is the spacing style: 0 = single spaces around binary operators and after
// commas, 1 = no optional spaces at all, 2 = double spaces.
func gap(sp int) string {
	switch sp {
	case 1:
		return ""
	case 2:
		return "  "
	}
	return " "
}

// Leaf returns a simple operand.
func Leaf() string {
	switch pick(8) {
	case 0:
		return "b"
	case 1:
		return "1"
	case 2:
		return `"s"`
	case 3:
		return "true"
	case 4:
		return "c.d"
	case 5:
		return "l[0]"
	case 6:
		return "null"
	}
	return "-2"
}

var binOps = []string{"+", "-", "*", "/", "%", "==", "!=", "<", "<=", ">", ">=", "&&", "||"}

// Expr returns one expression of the grammar; sub-expressions are leaves when depth is 1.
func Expr(depth int, sp int) string {
	sub := func() string {
		if depth <= 1 {
			return Leaf()
		}
		return Expr(depth-1, sp)
	}
	g := gap(sp)
	switch pick(28) {
	case 0:
		return Leaf()
	case 1:
		return sub() + g + binOps[pick(len(binOps))] + g + sub()
	case 2:
		return sub() + g + "?" + g + sub() + g + ":" + g + sub()
	case 3:
		return "(" + sub() + ")"
	case 4:
		return "[" + sub() + "," + g + sub() + "]"
	case 5:
		return "[]"
	case 6:
		return "{" + g + "k" + g + "=" + g + sub() + g + "}"
	case 7:
		return "{" + g + `"q r"` + g + ":" + g + sub() + "," + g + "(b)" + g + "=" + g + "1" + g + "}"
	case 8:
		return "{}"
	case 9:
		return "f(" + sub() + ")"
	case 10:
		return "f(" + sub() + "," + g + sub() + "...)"
	case 11:
		return "f()"
	case 12:
		return "-" + sub()
	case 13:
		return "!" + sub()
	case 14:
		return "b." + []string{"x", "for", "y1"}[pick(3)]
	case 15:
		return "b[" + sub() + "]"
	case 16:
		return "b.0.x"
	case 17:
		return "b[*].x[0]"
	case 18:
		return "b.*.x"
	case 19:
		return "[for x in " + sub() + g + ":" + g + sub() + "]"
	case 20:
		return "[for i, x in l" + g + ":" + g + "x" + g + "if " + sub() + "]"
	case 21:
		return "{for k, v in m" + g + ":" + g + "k" + g + "=>" + g + sub() + "...}"
	case 22:
		return `"a${` + sub() + `}b"`
	case 23:
		return `"${~ ` + sub() + ` ~}"`
	case 24:
		return `"%{ if ` + sub() + ` }x%{ else }y%{ endif }"`
	case 25:
		return `"%{ for x in l ~}${x}%{ endfor }"`
	case 26:
		return `"$${a} %%{b} \n\"\\"`
	}
	return "b[\"k\"][1].z"
}
