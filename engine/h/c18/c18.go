// Package c18: dynamic blocks expand to exactly the blocks they describe.
package c18

import (
	"strconv"

	"github.com/hashicorp/hcl/v2"
	"github.com/hashicorp/hcl/v2/ext/dynblock"
	"github.com/hashicorp/hcl/v2/hcldec"
	"github.com/hashicorp/hcl/v2/hclsyntax"
	"github.com/zclconf/go-cty/cty"

	"verif/engine/vf"
)

func pick(n int) int { return vf.Concretize(vf.Choice(n)) }

func letter() string {
	s := vf.Str(1)
	vf.Assume(s[0] >= 'a' && s[0] <= 'e')
	return s
}

var innerSpec = hcldec.ObjectSpec{
	"y": &hcldec.AttrSpec{Name: "y", Type: cty.String},
	"deep": &hcldec.BlockListSpec{TypeName: "deep", Nested: hcldec.ObjectSpec{"z": &hcldec.AttrSpec{Name: "z", Type: cty.String}}},
}

var blkSpec = hcldec.ObjectSpec{
	"x":     &hcldec.AttrSpec{Name: "x", Type: cty.String},
	"k":     &hcldec.AttrSpec{Name: "k", Type: cty.DynamicPseudoType},
	"inner": &hcldec.BlockListSpec{TypeName: "inner", Nested: innerSpec},
}

// specs under which both bodies are decoded
func specs() []hcldec.Spec {
	return []hcldec.Spec{
		hcldec.ObjectSpec{"a": &hcldec.AttrSpec{Name: "a", Type: cty.String}, "blks": &hcldec.BlockListSpec{TypeName: "blk", Nested: blkSpec}},
		hcldec.ObjectSpec{"a": &hcldec.AttrSpec{Name: "a", Type: cty.String}, "blks": &hcldec.BlockTupleSpec{TypeName: "blk", Nested: blkSpec}},
		hcldec.ObjectSpec{"a": &hcldec.AttrSpec{Name: "a", Type: cty.String}, "blks": &hcldec.BlockSetSpec{TypeName: "blk", Nested: blkSpec}},
	}
}

var labelledSpec = hcldec.ObjectSpec{
	"blks": &hcldec.BlockMapSpec{TypeName: "blk", LabelNames: []string{"name"}, Nested: hcldec.ObjectSpec{
		"x": &hcldec.AttrSpec{Name: "x", Type: cty.String},
	}},
}

func parse(src string) hcl.Body {
	f, diags := hclsyntax.ParseConfig([]byte(src), "d.hcl", hcl.InitialPos)
	vf.Assert(!diags.HasErrors(), "template-parses")
	return f.Body
}

func sameDecode(dyn, static hcl.Body, spec hcldec.Spec, ctx *hcl.EvalContext, tag string) {
	v1, d1 := hcldec.Decode(dynblock.Expand(dyn, ctx), spec, ctx)
	v2, d2 := hcldec.Decode(static, spec, ctx)
	vf.Assert(d1.HasErrors() == d2.HasErrors(), "expanded-and-written-out-agree-on-errors: "+tag)
	if !d1.HasErrors() && !d2.HasErrors() {
		vf.Assert(v1.RawEquals(v2), "expanded-decodes-like-written-out: "+tag)
		vf.Reach("equal")
	}
}

// H_Expand: dynamic blocks over collections of symbolic size (0..2) and symbolic
// element contents decode like the body with one block written out per element.
func H_Expand() {
	n := pick(3)
	e := []string{letter(), letter()}
	elems := make([]cty.Value, n)
	for i := range elems {
		elems[i] = cty.StringVal(e[i])
	}
	var l, tup cty.Value
	if n == 0 {
		l = cty.ListValEmpty(cty.String)
		tup = cty.EmptyTupleVal
	} else {
		l = cty.ListVal(elems)
		tup = cty.TupleVal(elems)
	}
	mvals := map[string]cty.Value{}
	keys := []string{"p", "q"}
	for i := 0; i < n; i++ {
		mvals[keys[i]] = elems[i]
	}
	var m cty.Value
	if n == 0 {
		m = cty.MapValEmpty(cty.String)
	} else {
		m = cty.MapVal(mvals)
	}
	ctx := &hcl.EvalContext{Variables: map[string]cty.Value{"l": l, "t": tup, "m": m, "o": cty.ObjectVal(mvals), "z": cty.StringVal("zz")}}

	which := pick(12)
	vf.Observe("template", which)
	vf.Observe("n", n)
	var dyn, static string
	idx := func(i int) string { return strconv.Itoa(i) }
	switch which {
	case 0: // list: value and key
		dyn = "a = z\ndynamic \"blk\" {\n  for_each = l\n  content {\n    x = blk.value\n    k = blk.key\n  }\n}\n"
		static = "a = z\n"
		for i := 0; i < n; i++ {
			static += "blk {\n  x = l[" + idx(i) + "]\n  k = " + idx(i) + "\n}\n"
		}
	case 1: // map: keys in lexical order
		dyn = "dynamic \"blk\" {\n  for_each = m\n  content {\n    x = blk.value\n    k = blk.key\n  }\n}\n"
		for i := 0; i < n; i++ {
			static += "blk {\n  x = m[\"" + keys[i] + "\"]\n  k = \"" + keys[i] + "\"\n}\n"
		}
	case 2: // tuple with a custom iterator; static blocks before and after, in source order
		dyn = "blk {\n  x = \"first\"\n}\ndynamic \"blk\" {\n  for_each = t\n  iterator = it\n  content {\n    x = \"${it.value}-${it.key}\"\n  }\n}\nblk {\n  x = \"last\"\n}\n"
		static = "blk {\n  x = \"first\"\n}\n"
		for i := 0; i < n; i++ {
			static += "blk {\n  x = \"${t[" + idx(i) + "]}-" + idx(i) + "\"\n}\n"
		}
		static += "blk {\n  x = \"last\"\n}\n"
	case 3: // object
		dyn = "dynamic \"blk\" {\n  for_each = o\n  content {\n    x = blk.value\n    k = blk.key\n  }\n}\n"
		for i := 0; i < n; i++ {
			static += "blk {\n  x = o." + keys[i] + "\n  k = \"" + keys[i] + "\"\n}\n"
		}
	case 4: // nested dynamic referring to the outer iterator
		dyn = "dynamic \"blk\" {\n  for_each = l\n  content {\n    x = blk.value\n    dynamic \"inner\" {\n      for_each = l\n      content {\n        y = \"${blk.value}${inner.value}${blk.key}${inner.key}\"\n      }\n    }\n  }\n}\n"
		for i := 0; i < n; i++ {
			static += "blk {\n  x = l[" + idx(i) + "]\n"
			for j := 0; j < n; j++ {
				static += "  inner {\n    y = \"${l[" + idx(i) + "]}${l[" + idx(j) + "]}" + idx(i) + idx(j) + "\"\n  }\n"
			}
			static += "}\n"
		}
	case 5: // dynamic inside a static block; inner static block keeps the context
		dyn = "blk {\n  x = z\n  dynamic \"inner\" {\n    for_each = m\n    content {\n      y = inner.key\n    }\n  }\n  inner {\n    y = \"s\"\n  }\n}\n"
		static = "blk {\n  x = z\n"
		for i := 0; i < n; i++ {
			static += "  inner {\n    y = \"" + keys[i] + "\"\n  }\n"
		}
		static += "  inner {\n    y = \"s\"\n  }\n}\n"
	case 6: // a for expression as for_each, with a filter on the symbolic content
		dyn = "dynamic \"blk\" {\n  for_each = [for v in l : v if v != \"a\"]\n  content {\n    x = blk.value\n  }\n}\n"
		for i := 0; i < n; i++ {
			if e[i] != "a" {
				static += "blk {\n  x = l[" + idx(i) + "]\n}\n"
			}
		}
	case 7: // two dynamic blocks of the same type: order of appearance
		dyn = "dynamic \"blk\" {\n  for_each = l\n  content {\n    x = \"1${blk.value}\"\n  }\n}\ndynamic \"blk\" {\n  for_each = m\n  content {\n    x = \"2${blk.value}\"\n  }\n}\n"
		for i := 0; i < n; i++ {
			static += "blk {\n  x = \"1${l[" + idx(i) + "]}\"\n}\n"
		}
		for i := 0; i < n; i++ {
			static += "blk {\n  x = \"2${m." + keys[i] + "}\"\n}\n"
		}
	case 9: // the iterator is named like the global variable that its own for_each refers to
		dyn = "dynamic \"blk\" {\n  for_each = l\n  iterator = l\n  content {\n    x = l.value\n    k = l.key\n  }\n}\n"
		for i := 0; i < n; i++ {
			static += "blk {\n  x = l[" + idx(i) + "]\n  k = " + idx(i) + "\n}\n"
		}
	case 10: // the same, nested and inside a for expression; the outer iterator is used by the inner for_each
		dyn = "dynamic \"blk\" {\n  for_each = l\n  content {\n    x = blk.value\n    dynamic \"inner\" {\n      for_each = [for v in m : \"${v}${blk.key}\"]\n      iterator = m\n      content {\n        y = m.value\n      }\n    }\n  }\n}\n"
		for i := 0; i < n; i++ {
			static += "blk {\n  x = l[" + idx(i) + "]\n"
			for j := 0; j < n; j++ {
				static += "  inner {\n    y = \"${m." + keys[j] + "}" + idx(i) + "\"\n  }\n"
			}
			static += "}\n"
		}
	case 11: // three levels: the innermost block refers to the outermost and the middle iterator
		dyn = "dynamic \"blk\" {\n  for_each = l\n  content {\n    dynamic \"inner\" {\n      for_each = m\n      content {\n        y = inner.key\n        dynamic \"deep\" {\n          for_each = l\n          content {\n            z = \"${blk.value}${inner.value}${deep.key}\"\n          }\n        }\n      }\n    }\n  }\n}\n"
		for i := 0; i < n; i++ {
			static += "blk {\n"
			for j := 0; j < n; j++ {
				static += "  inner {\n    y = \"" + keys[j] + "\"\n"
				for k := 0; k < n; k++ {
					static += "    deep {\n      z = \"${l[" + idx(i) + "]}${m." + keys[j] + "}" + idx(k) + "\"\n    }\n"
				}
				static += "  }\n"
			}
			static += "}\n"
		}
	}
	if which == 8 { // nested dynamics that use the SAME iterator name: the inner one shadows the outer
		dyn = "dynamic \"blk\" {\n  for_each = l\n  iterator = it\n  content {\n    x = it.value\n    dynamic \"inner\" {\n      for_each = m\n      iterator = it\n      content {\n        y = \"${it.key}${it.value}\"\n      }\n    }\n  }\n}\n"
		static = ""
		for i := 0; i < n; i++ {
			static += "blk {\n  x = l[" + idx(i) + "]\n"
			for j := 0; j < n; j++ {
				static += "  inner {\n    y = \"" + keys[j] + "${m." + keys[j] + "}\"\n  }\n"
			}
			static += "}\n"
		}
	}
	dbody, sbody := parse(dyn), parse(static)
	for si, spec := range specs() {
		sameDecode(dbody, sbody, spec, ctx, "template "+strconv.Itoa(which)+" spec "+strconv.Itoa(si))
	}
	// the variables reported for expansion are sufficient to perform it
	need := map[string]bool{}
	for _, tr := range dynblock.ExpandVariablesHCLDec(dbody, specs()[0]) {
		need[tr.RootName()] = true
	}
	small := &hcl.EvalContext{Variables: map[string]cty.Value{}}
	for k, v := range ctx.Variables {
		if need[k] {
			small.Variables[k] = v
		}
	}
	_, _, d1 := dynblock.Expand(dbody, small).PartialContent(&hcl.BodySchema{Blocks: []hcl.BlockHeaderSchema{{Type: "blk"}}})
	_, _, d2 := dynblock.Expand(dbody, ctx).PartialContent(&hcl.BodySchema{Blocks: []hcl.BlockHeaderSchema{{Type: "blk"}}})
	vf.Assert(d1.HasErrors() == d2.HasErrors(), "expansion-variables-suffice: template "+strconv.Itoa(which))
	// ... and, together with the variables reported for the content, to decode at every depth
	for _, tr := range dynblock.VariablesHCLDec(dbody, specs()[0]) {
		need[tr.RootName()] = true
	}
	for k, v := range ctx.Variables {
		if need[k] {
			small.Variables[k] = v
		}
	}
	v3, d3 := hcldec.Decode(dynblock.Expand(dbody, small), specs()[0], small)
	v4, d4 := hcldec.Decode(dynblock.Expand(dbody, ctx), specs()[0], ctx)
	vf.Assert(d3.HasErrors() == d4.HasErrors() && (d3.HasErrors() || v3.RawEquals(v4)), "reported-variables-suffice-at-every-depth: template "+strconv.Itoa(which))
}

// H_Labels: labels computed from the iterator, with symbolic contents (collisions included).
func H_Labels() {
	e0, e1 := letter(), letter()
	ctx := &hcl.EvalContext{Variables: map[string]cty.Value{"l": cty.ListVal([]cty.Value{cty.StringVal(e0), cty.StringVal(e1)})}}
	dyn := "dynamic \"blk\" {\n  for_each = l\n  labels = [\"n${blk.value}\"]\n  content {\n    x = blk.key\n  }\n}\n"
	static := "blk \"n${l[0]}\" {\n  x = 0\n}\nblk \"n${l[1]}\" {\n  x = 1\n}\n"
	// block labels are literal in native syntax, so the written-out body uses the concrete letters
	static = "blk \"n" + vf.ConcretizeStr(e0) + "\" {\n  x = 0\n}\nblk \"n" + vf.ConcretizeStr(e1) + "\" {\n  x = 1\n}\n"
	sameDecode(parse(dyn), parse(static), labelledSpec, ctx, "labels")
	vf.Reach("done")
}

// H_Unknown: unknown / null / marked for_each.
func H_Unknown() {
	which := pick(5)
	vf.Observe("case", which)
	spec := specs()[pick(3)]
	dyn := parse("a = z\ndynamic \"blk\" {\n  for_each = l\n  content {\n    x = blk.value\n  }\n}\n")
	var l cty.Value
	switch which {
	case 0:
		l = cty.UnknownVal(cty.List(cty.String))
	case 1:
		l = cty.DynamicVal
	case 2:
		l = cty.NullVal(cty.List(cty.String))
	case 3:
		l = cty.ListVal([]cty.Value{cty.StringVal(letter())}).Mark("m")
	case 4: // a KNOWN collection one of whose elements is unknown
		l = cty.ListVal([]cty.Value{cty.UnknownVal(cty.String), cty.StringVal(letter())})
	}
	ctx := &hcl.EvalContext{Variables: map[string]cty.Value{"l": l, "z": cty.StringVal("zz")}}
	v, diags := hcldec.Decode(dynblock.Expand(dyn, ctx), spec, ctx)
	implied := hcldec.ImpliedType(spec)
	switch which {
	case 0, 1:
		vf.Assert(!diags.HasErrors(), "unknown-for_each-is-not-an-error")
		vf.Assert(len(v.Type().TestConformance(implied)) == 0, "unknown-for_each-result-conforms-to-implied-type")
		if !diags.HasErrors() {
			vf.Assert(v.GetAttr("a").RawEquals(cty.StringVal("zz")), "unaffected-part-stays-known")
			vf.Assert(!v.GetAttr("blks").IsWhollyKnown(), "affected-part-is-unknown")
		}
	case 2:
		vf.Assert(diags.HasErrors(), "null-for_each-is-an-error")
	case 4:
		vf.Assert(!diags.HasErrors(), "known-collection-with-unknown-element-expands")
		if !diags.HasErrors() {
			blks := v.GetAttr("blks")
			vf.Assert(blks.IsKnown() && blks.LengthInt() == 2, "one-block-per-element-of-a-known-collection")
		}
	case 3:
		vf.Assert(!diags.HasErrors(), "marked-for_each-expands")
		if !diags.HasErrors() {
			vf.Assert(v.GetAttr("blks").ContainsMarked(), "marked-for_each-marks-the-blocks")
		}
	}
	vf.Reach("done")
}
