// Package seeds holds concrete input texts used as the fixed part of
// "seed + symbolic window" harnesses.
package seeds

type Seed struct {
	Name string
	Text string
}

// Extra seeds written for constructs the repository corpora do not contain.
var ExtraConfig = []Seed{
	{"heredoc", "a = <<EOT\nhello ${b}\nEOT\n"},
	{"flush-heredoc", "a = <<-EOT\n  x\n    y\n  EOT\n"},
	{"heredoc-interp-first", "a = <<EOT\n${b} world\nEOT\n"},
	{"heredoc-directive-first", "a = <<-EOT\n  %{ if b }x%{ endif }\n  ${~ c } y\n  EOT\n"},
	{"align-chain", "blk {\n  a = 1\n      bungle = 2 # c1\n  c = 3 # c2\n}\n"},
	{"for-tuple", "a = [for k, v in m : v if k != \"x\"]\n"},
	{"for-object", "a = {for k, v in m : k => v...}\n"},
	{"cond", "a = b ? c : d\n"},
	{"oneline", "b \"l\" { a = 1 }\n"},
	{"nested-tmpl", "a = \"x${\"y${z}\"}w\"\n"},
	{"directive", "a = \"%{ if c }t%{ else }f%{ endif }\"\n"},
	{"tmpl-for", "a = \"%{ for x in l ~}${x},%{ endfor }\"\n"},
	{"strip", "a = \" ${~ b ~} \"\n"},
	{"ops", "a = -1 + 2 * 3 % 4 >= 5 && !t || f\n"},
	{"splat", "a = b.*.c[0]\nd = e[*].f\n"},
	{"legacy-index", "a = b.0.c\n"},
	{"call-expand", "a = f(x, y...)\n"},
	{"obj", "a = {\n  b = 1\n  \"c\" : 2,\n  (d) = 3\n}\n"},
	{"comments", "# c1\na = 1 // c2\n/* c3 */ b {\n}\n"},
	{"crlf", "a = 1\r\nb {\r\n}\r\n"},
	{"escapes", "a = \"\\n\\t\\\"\\\\\\u00e9\\U0001F600$${x}%%{y}\"\n"},
	{"parens", "a = (\n1 +\n2\n)\n"},
	{"null-bool", "a = [null, true, false]\n"},
	{"index-keyword-keys", "a = foo[true]\nb = foo[null].x\nc = foo[false][0]\n"},
	{"comment-in-block-header", "blk /* c1 */ \"l\" /* c2 */ {\n  a = 1\n}\n"},
	{"index-empty-string", "a = foo[\"\"]\nb = \"${foo[\"\"]}\"\n"},
	{"splat-legacy", "a = foo.*.bar.0\nb = foo.*.0\n"},
	{"flush-heredoc-nbsp", "a = <<-EOT\n\u00a0\u00a0x ${b}\n\u00a0\u00a0\u00a0y\n  EOT\n"},
	{"escape-boundaries", "a = \"\\ud7ff\\ue000\\U0000d7ff\\U0010ffff\"\n"},
	{"obj-key-tmpl", "a = {\n  \"${foo.bar}-n\" = bar\n  \"k${x.bar}\" : \"${baz.bar}\"\n}\n"},
}

// RangeConfig: seeds used only by the range-fidelity harnesses (C14).
var RangeConfig = []Seed{
	{"double-parens", "a = ((b)) + c * ((d + e))\nf = g ? h : ((i))\n"},
}

var ExtraTemplate = []Seed{
	{"interp", "hello ${name}!"},
	{"if", "%{ if a }x%{ else }y%{ endif }"},
	{"for", "%{ for i, v in l }${i}=${v}%{ endfor }"},
	{"strip", "a ${~ b ~} c"},
	{"escape", "$${a} %%{b} $ % ${\"}\"}"},
}

var ExtraJSON = []Seed{
	{"escapes", `{"a":"\né😀\\\"/"}`},
	{"nested", `{"b":{"l1":{"l2":[{"x":1},{"y":[true,false,null]}]}}}`},
	{"numbers", `[0,-1,1.5e+10,1E-2]`},
	{"ws", " {\n\t\"a\" :\r\n [ ] }\n"},
	{"dup", `{"a":1,"a":2}`},
	{"tmpl", `{"a":"${b} %{if c}x%{endif}"}`},
	{"key-tmpl", `{"a":{"${b}":1,"k":"${c}"}}`},
	{"tmpl-unterminated", `{"a":"x${"}`},
	{"tmpl-badutf8", "{\"a\":\"\xff${\"}"},
	{"tmpl-badutf8-expr", "[\"\xff\xfe${b +}\"]"},
}
