// Package c09: formatting changes only inter-token spacing and is idempotent (C09);
// loading a file into the writer AST and saving it loses nothing (C10).
package c09

import (
	"bytes"

	"github.com/hashicorp/hcl/v2"
	"github.com/hashicorp/hcl/v2/hclsyntax"
	"github.com/hashicorp/hcl/v2/hclwrite"
	"github.com/zclconf/go-cty/cty"

	"verif/engine/h/gen"
	"verif/engine/h/seeds"
	"verif/engine/vf"
)

// Token-list seeds for the gap harness: each is a sequence of token texts that is
// rendered with a symbolic amount of spacing before every token.
var gapSeeds = [][]string{
	{"a", "=", "b", ".", "0", ".", "1", "\n"},
	{"a", "=", "b", ".", "c", "[", "0", "]", ".", "*", ".", "d", "\n"},
	{"a", "=", "-", "1", "-", "-", "2", "\n"},
	{"a", "=", "!", "b", "&&", "-", "c", "\n"},
	{"a", "=", "[", "-", "1", ",", "-", "b", "]", "\n"},
	{"a", "=", "f", "(", "-", "1", ",", "b", "...", ")", "\n"},
	{"a", "=", "[", "for", "x", "in", "l", ":", "-", "x", "if", "!", "x", "]", "\n"},
	{"a", "=", "{", "for", "k", ",", "v", "in", "m", ":", "k", "=>", "v", "...", "}", "\n"},
	{"a", "=", "b", "?", "-", "1", ":", "c", "[", "*", "]", "\n"},
	{"a", "=", "\"", "x", "${", "-", "b", "}", "y", "\"", "\n"},
	{"a", "=", "\"", "%{", "if", "b", "~}", "x", "%{", "endif", "}", "\"", "\n"},
	{"b", "\"", "l", "\"", "{", "a", "=", "1", "}", "\n"},
	{"b", "l", "{", "\n", "a", "=", "1", "# c", "\n", "bb", "=", "2", "// d", "\n", "}", "\n"},
	{"a", "=", "1", "/* x */", "+", "2", "\n"},
	{"a", "=", "(", "b", ")", ".", "c", "\n"},
	{"a", "=", "b", "[", "\"", "k", "\"", "]", "[", "1", "]", ".", "2", "\n"},
	{"a", "=", "{", "b", "=", "1", ",", "\"", "c", "\"", ":", "2", "}", "\n"},
	{"a", "=", "1", "%", "2", "*", "3", "/", "4", "\n"},
	{"a", "=", "b", "==", "c", "||", "d", "!=", "e", "\n"},
	{"a", "=", "<<EOT\n", "x\n", "EOT\n"},
	{"a", "=", "b", ".", "1", ".", "e5", "\n"},
	{"a", "=", "1", ".", "e5", ".", "E2", "\n"},
	{"a", "=", "b", ".", "1", ".", "e-5", ".", "E-2x", "\n"},
	{"a", "=", "1.5", ".", "e3", ".", "2", ".", "e2e_x", "\n"},
	{"a", "=", "ns", "::", "f", "(", "1", ")", ".", "0", "\n"},
}

type tok struct {
	ty hclsyntax.TokenType
	b  string
}

func lexAll(src []byte) ([]tok, bool) {
	toks, diags := hclsyntax.LexConfig(src, "x.hcl", hcl.InitialPos)
	out := make([]tok, 0, len(toks))
	for _, t := range toks {
		out = append(out, tok{t.Type, string(t.Bytes)})
	}
	return out, !diags.HasErrors()
}

func sameToks(a, b []tok) bool {
	if len(a) != len(b) {
		return false
	}
	for i := range a {
		if a[i].ty != b[i].ty || a[i].b != b[i].b {
			return false
		}
	}
	return true
}

func scope() *hcl.EvalContext {
	obj := cty.ObjectVal(map[string]cty.Value{"c": cty.ListVal([]cty.Value{cty.ObjectVal(map[string]cty.Value{"d": cty.StringVal("dd")})}), "bar": cty.StringVal("x")})
	vars := map[string]cty.Value{}
	for _, n := range []string{"b", "c", "d", "e", "foo", "bar", "baz", "var", "x", "z", "k", "v"} {
		vars[n] = obj
	}
	vars["l"] = cty.ListVal([]cty.Value{cty.True, cty.False})
	vars["m"] = cty.MapVal(map[string]cty.Value{"a": cty.StringVal("A")})
	return &hcl.EvalContext{Variables: vars}
}

// attrValues evaluates every attribute (recursively) and returns name -> rendering of (value, error?).
func attrValues(body *hclsyntax.Body, prefix string, out map[string]cty.Value, errs map[string]bool) {
	ctx := scope()
	for name, attr := range body.Attributes {
		v, diags := attr.Expr.Value(ctx)
		out[prefix+name] = v
		errs[prefix+name] = diags.HasErrors()
	}
	for i, blk := range body.Blocks {
		p := prefix + blk.Type
		for _, l := range blk.Labels {
			p += "." + l
		}
		attrValues(blk.Body, p+"#"+string(rune('0'+i))+"/", out, errs)
	}
}

// checkFormat: C09 on one error-free source text.
func checkFormat(src []byte, sig bool, tag string) {
	f, diags := hclsyntax.ParseConfig(src, "x.hcl", hcl.InitialPos)
	if diags.HasErrors() {
		vf.Reach("error")
		return
	}
	before, _ := lexAll(src)
	out := hclwrite.Format(src)
	vf.Observe("formatted", out)
	after, _ := lexAll(out)
	vf.AssertKnown(sameToks(before, after), "format-preserves-token-sequence"+tag, "C09-dot-number-merge", sig)
	g, gdiags := hclsyntax.ParseConfig(out, "x.hcl", hcl.InitialPos)
	vf.AssertKnown(!gdiags.HasErrors(), "formatted-output-parses"+tag, "C09-dot-number-merge", sig)
	if !gdiags.HasErrors() {
		v1, e1 := map[string]cty.Value{}, map[string]bool{}
		v2, e2 := map[string]cty.Value{}, map[string]bool{}
		attrValues(f.Body.(*hclsyntax.Body), "", v1, e1)
		attrValues(g.Body.(*hclsyntax.Body), "", v2, e2)
		same := len(v1) == len(v2)
		for k, a := range v1 {
			b, ok := v2[k]
			if !ok || e1[k] != e2[k] || (!e1[k] && !a.RawEquals(b)) {
				same = false
			}
		}
		vf.AssertKnown(same, "formatted-output-same-values"+tag, "C09-dot-number-merge", sig)
	}
	again := hclwrite.Format(out)
	vf.AssertKnown(bytes.Equal(again, out), "format-idempotent"+tag, "C09-dot-number-merge", sig)
	vf.Reach("formatted")
}

// sigDotNumber: a NumberLit followed (after a gap) by '.' and another NumberLit, or
// '.' NumberLit followed after a gap by '.': the formatter's "no spaces around dots"
// rule glues them into a different number token.
func sigDotNumber(toks []tok) bool {
	for i := 0; i+2 < len(toks); i++ {
		if toks[i].ty == hclsyntax.TokenNumberLit && toks[i+1].ty == hclsyntax.TokenDot && toks[i+2].ty == hclsyntax.TokenNumberLit {
			return true
		}
	}
	return false
}

// checkLoad: C10 on one error-free source text.
func checkLoad(src []byte) {
	f, diags := hclsyntax.ParseConfig(src, "x.hcl", hcl.InitialPos)
	if diags.HasErrors() {
		vf.Reach("error")
		return
	}
	wf, wdiags := hclwrite.ParseConfig(src, "x.hcl", hcl.InitialPos)
	vf.Assert(!wdiags.HasErrors() && wf != nil, "writer-loads-error-free-source")
	if wdiags.HasErrors() || wf == nil {
		return
	}
	before, _ := lexAll(src)
	var built []tok
	for _, t := range wf.BuildTokens(nil) {
		built = append(built, tok{t.Type, string(t.Bytes)})
	}
	// the scanner's stream ends with EOF; the writer's token list may or may not carry it
	b2 := before
	if len(b2) > 0 && b2[len(b2)-1].ty == hclsyntax.TokenEOF {
		b2 = b2[:len(b2)-1]
	}
	if len(built) > 0 && built[len(built)-1].ty == hclsyntax.TokenEOF {
		built = built[:len(built)-1]
	}
	vf.Assert(sameToks(b2, built), "writer-tokens-equal-source-tokens")
	saved := wf.Bytes()
	vf.Observe("saved", saved)
	vf.AssertKnown(bytes.Equal(saved, hclwrite.Format(src)), "saved-bytes-equal-formatter-output", "C09-dot-number-merge", sigDotNumber(before))
	// the tree exposes every attribute, block, label, variable
	compareBodies(f.Body.(*hclsyntax.Body), wf.Body())
	vf.Reach("loaded")
}

func unknownVars(diags hcl.Diagnostics) int {
	n := 0
	for _, d := range diags {
		if d.Summary == "Unknown variable" {
			n++
		}
	}
	return n
}

func compareBodies(sb *hclsyntax.Body, wb *hclwrite.Body) {
	wattrs := wb.Attributes()
	vf.Assert(len(wattrs) == len(sb.Attributes), "writer-exposes-every-attribute")
	for name, sa := range sb.Attributes {
		wa, ok := wattrs[name]
		vf.Assert(ok, "writer-exposes-every-attribute")
		if !ok {
			continue
		}
		svars := sa.Expr.Variables()
		wvars := wa.Expr().Variables()
		vf.Assert(len(svars) == len(wvars), "writer-exposes-every-variable-reference")
		// ... and what it exposes is what evaluation needs: in the scope restricted to the
		// root names the writer reports, no further variable is found to be missing
		full := scope()
		keep := map[string]cty.Value{}
		for _, tr := range wvars {
			toks := tr.BuildTokens(nil)
			if len(toks) == 0 {
				continue
			}
			root := string(toks[0].Bytes)
			if v, ok := full.Variables[root]; ok {
				keep[root] = v
			}
		}
		_, d1 := sa.Expr.Value(full)
		_, d2 := sa.Expr.Value(&hcl.EvalContext{Variables: keep})
		vf.Assert(unknownVars(d1) == unknownVars(d2), "writer-variables-suffice-to-evaluate")
	}
	wblocks := wb.Blocks()
	vf.Assert(len(wblocks) == len(sb.Blocks), "writer-exposes-every-block")
	for i, sblk := range sb.Blocks {
		if i >= len(wblocks) {
			break
		}
		wblk := wblocks[i]
		vf.Assert(wblk.Type() == sblk.Type, "writer-block-type")
		wl := wblk.Labels()
		ok := len(wl) == len(sblk.Labels)
		for j := 0; ok && j < len(wl); j++ {
			ok = wl[j] == sblk.Labels[j]
		}
		vf.Assert(ok, "writer-block-labels")
		compareBodies(sblk.Body, wblk.Body())
	}
}

func seedWindow() []byte {
	list := append(append([]seeds.Seed{}, seeds.CorpusConfig...), seeds.ExtraConfig...)
	si := vf.Concretize(vf.Choice(len(list)))
	text := list[si].Text
	if len(text) > vf.Param("maxlen", 100) {
		text = text[:vf.Param("maxlen", 100)]
	}
	w := vf.Param("w", 1)
	stride := vf.Param("stride", 1)
	op := vf.Concretize(vf.Choice(2))
	off := vf.Concretize(vf.Choice(len(text)/stride+1)) * stride
	if off > len(text) {
		off = len(text)
	}
	vf.Observe("seed", si)
	b := []byte(text)
	out := append([]byte{}, b[:off]...)
	out = append(out, vf.Bytes(w)...)
	if op == 0 && off+w <= len(b) {
		return append(out, b[off+w:]...)
	}
	return append(out, b[off:]...)
}

// gapped renders a token-list seed with single spaces between tokens, except for a
// window of gw adjacent gap positions (at every position of the seed) whose widths
// are chosen symbolically from {none, 1 space, 2 spaces, tab}; only layouts that
// lex back to the same tokens are kept.
func gapped() ([]byte, []tok) {
	gi := vf.Concretize(vf.Choice(len(gapSeeds)))
	seed := gapSeeds[gi]
	vf.Observe("gapseed", gi)
	gw := vf.Param("gw", 2)
	ngaps := vf.Param("gaps", 3)
	isGap := func(i int) bool {
		return i > 0 && seed[i] != "\n" && seed[i-1][len(seed[i-1])-1] != '\n'
	}
	var positions []int
	for i := range seed {
		if isGap(i) {
			positions = append(positions, i)
		}
	}
	start := vf.Concretize(vf.Choice(len(positions)))
	widths := map[int]int{}
	for k := 0; k < gw && start+k < len(positions); k++ {
		widths[positions[start+k]] = vf.Concretize(vf.Choice(ngaps))
	}
	gaps := []string{"", " ", "  ", "\t"}
	var src, canon []byte
	for i, t := range seed {
		if isGap(i) {
			canon = append(canon, ' ')
			if w, ok := widths[i]; ok {
				src = append(src, gaps[w]...)
			} else {
				src = append(src, ' ')
			}
		}
		src = append(src, t...)
		canon = append(canon, t...)
	}
	want, _ := lexAll(canon)
	got, _ := lexAll(src)
	vf.Assume(sameToks(want, got))
	return src, got
}

func H_FormatSeed() {
	src := seedWindow()
	toks, _ := lexAll(src)
	checkFormat(src, sigDotNumber(toks), "")
}

func H_FormatGaps() {
	src, toks := gapped()
	vf.Observe("src", src)
	checkFormat(src, sigDotNumber(toks), " @ "+string(bytes.TrimSpace(bytes.Join(bytes.Fields(src), []byte(" ")))))
}

func H_LoadSeed() { checkLoad(seedWindow()) }

func H_LoadGaps() {
	src, _ := gapped()
	vf.Observe("src", src)
	checkLoad(src)
}

// genSource: "a = <generated expression>" (optionally inside a block, with a comment).
func genSource() []byte {
	sp := vf.Concretize(vf.Choice(3))
	e := gen.Expr(vf.Param("depth", 1), sp)
	switch vf.Concretize(vf.Choice(3)) {
	case 0:
		return []byte("a = " + e + "\n")
	case 1:
		return []byte("blk {\n  a   =   " + e + " # c\n  bb = 1\n}\n")
	}
	return []byte("a=" + e + "\nb = [\n  " + e + ",\n]\n")
}

// H_FormatGen / H_LoadGen: every expression derivable from the grammar of package
// gen within the depth bound, in three spacing styles and three contexts.
func H_FormatGen() {
	src := genSource()
	vf.Observe("src", string(src))
	toks, _ := lexAll(src)
	checkFormat(src, sigDotNumber(toks), "")
}

func H_LoadGen() {
	src := genSource()
	vf.Observe("src", string(src))
	checkLoad(src)
}
