// Package c03: native and JSON syntaxes denote the same configuration.
package c03

import (
	"github.com/hashicorp/hcl/v2"
	"github.com/hashicorp/hcl/v2/hcldec"
	"github.com/hashicorp/hcl/v2/hclsyntax"
	hcljson "github.com/hashicorp/hcl/v2/json"
	"github.com/zclconf/go-cty/cty"

	"verif/engine/vf"
)

func pick(n int) int { return vf.Concretize(vf.Choice(n)) }

func letters(n int) string {
	s := vf.Str(n)
	for i := 0; i < n; i++ {
		vf.Assume((s[i] >= 'a' && s[i] <= 'z') || s[i] == ' ' || s[i] == '_')
	}
	return s
}

// lit is an attribute value in both spellings.
type lit struct{ native, json string }

func genLit(depth int) lit {
	max := 6
	if depth <= 0 {
		max = 4
	}
	switch pick(max) {
	case 0:
		s := letters(vf.Param("slen", 2))
		return lit{`"` + s + `"`, `"` + s + `"`}
	case 1:
		if vf.Bool() {
			return lit{"true", "true"}
		}
		return lit{"false", "false"}
	case 2:
		n := []string{"1.5", "12345678901234567890.5", "9007199254740993", "-9223372036854775809", "0", "10", "-3"}[pick(vf.Param("nums", 2))]
		return lit{n, n}
	case 3:
		return lit{"null", "null"}
	case 4:
		a, b := genLit(depth-1), genLit(depth-1)
		return lit{"[" + a.native + ", " + b.native + "]", "[" + a.json + ", " + b.json + "]"}
	}
	a := genLit(depth - 1)
	return lit{"{k = " + a.native + ", \"m n\" = 1}", `{"k": ` + a.json + `, "m n": 1}`}
}

type block struct {
	label    string // "" = no label
	hasLabel bool
	x        lit
	inner    bool
	extra    bool // also sets zz, which the nested specification does not have
}

type config struct {
	attrs  []lit // values of p, q
	blocks []block
	extra  int // 1: an item no schema mentions at the top level; 2: inside the first block
}

var attrNames = []string{"p", "q"}

func genConfig() config {
	var c config
	na := pick(vf.Param("attrs", 2) + 1)
	for i := 0; i < na; i++ {
		c.attrs = append(c.attrs, genLit(vf.Param("depth", 1)))
	}
	nb := pick(vf.Param("blocks", 2) + 1)
	labelled := pick(2) == 1
	for i := 0; i < nb; i++ {
		var x lit
		if vf.Param("xkinds", 0) == 1 {
			x = []lit{{"1.5", "1.5"}, {`"s"`, `"s"`}}[pick(2)]
		} else {
			x = genLit(0)
		}
		b := block{hasLabel: labelled, x: x, inner: vf.Param("lean", 0) == 0 && pick(2) == 1}
		if labelled && vf.Param("lean", 0) == 1 {
			b.label = []string{"a", "b"}[pick(2)]
		} else if labelled {
			// label bytes over {a, /, space}: includes the label "//", which is a comment
			// marker only as a property name of a BODY object
			l := vf.Str(vf.Param("llen", 2))
			for k := 0; k < len(l); k++ {
				vf.Assume(l[k] == 'a' || l[k] == '/' || l[k] == ' ')
			}
			b.label = l
		}
		c.blocks = append(c.blocks, b)
	}
	if vf.Param("extras", 0) == 1 {
		c.extra = pick(3)
		if c.extra == 2 && len(c.blocks) == 0 {
			c.extra = 1
		}
	}
	if c.extra == 2 {
		c.blocks[0].extra = true
	}
	return c
}

func nativeSrc(c config) string {
	src := ""
	for i, a := range c.attrs {
		src += attrNames[i] + " = " + a.native + "\n"
	}
	if c.extra == 1 {
		src += "zz = 1\n"
	}
	for _, b := range c.blocks {
		src += "blk"
		if b.hasLabel {
			src += ` "` + b.label + `"`
		}
		src += " {\n  x = " + b.x.native + "\n"
		if b.extra {
			src += "  zz = 1\n"
		}
		if b.inner {
			src += "  inner {\n    y = 1\n  }\n"
		}
		src += "}\n"
	}
	return src
}

func blockBodyJSON(b block, comment bool) string {
	s := `{"x": ` + b.x.json
	if comment {
		s += `, "//": "a comment property"`
	}
	if b.extra {
		s += `, "zz": 1`
	}
	if b.inner {
		s += `, "inner": {"y": 1}`
	}
	return s + "}"
}

// jsonSrc renders the same configuration in one of the admissible JSON encodings.
func jsonSrc(c config, form int, comment bool) string {
	var props []string
	for i, a := range c.attrs {
		props = append(props, `"`+attrNames[i]+`": `+a.json)
	}
	if c.extra == 1 {
		props = append(props, `"zz": 1`)
	}
	if comment {
		props = append(props, `"//": "top-level comment"`)
	}
	wrapLabel := func(b block, body string) string {
		if b.hasLabel {
			return `{"` + b.label + `": ` + body + `}`
		}
		return body
	}
	switch form {
	case 0, 2: // one property per block (duplicate property names when several blocks)
		for _, b := range c.blocks {
			props = append(props, `"blk": `+wrapLabel(b, blockBodyJSON(b, comment)))
		}
	case 1: // a single property holding an array of (label objects of) bodies
		if len(c.blocks) > 0 {
			arr := ""
			for i, b := range c.blocks {
				if i > 0 {
					arr += ", "
				}
				arr += wrapLabel(b, blockBodyJSON(b, comment))
			}
			props = append(props, `"blk": [`+arr+`]`)
		}
	}
	if form == 2 { // array-of-objects body: one object per property
		out := "["
		for i, p := range props {
			if i > 0 {
				out += ", "
			}
			out += "{" + p + "}"
		}
		return out + "]"
	}
	out := "{"
	for i, p := range props {
		if i > 0 {
			out += ", "
		}
		out += p
	}
	return out + "}"
}

var nestedSpec = hcldec.ObjectSpec{
	"x":     &hcldec.AttrSpec{Name: "x", Type: cty.DynamicPseudoType},
	"inner": &hcldec.BlockListSpec{TypeName: "inner", Nested: hcldec.ObjectSpec{"y": &hcldec.AttrSpec{Name: "y", Type: cty.Number}}},
}

func specFor(labelled bool, which int) hcldec.Spec {
	attrs := hcldec.ObjectSpec{
		"p": &hcldec.AttrSpec{Name: "p", Type: cty.DynamicPseudoType},
		"q": &hcldec.AttrSpec{Name: "q", Type: cty.DynamicPseudoType},
	}
	var blocks hcldec.Spec
	labelNested := hcldec.ObjectSpec{"x": nestedSpec["x"], "inner": nestedSpec["inner"], "name": &hcldec.BlockLabelSpec{Index: 0, Name: "name"}}
	switch {
	case labelled && which == 0:
		blocks = &hcldec.BlockListSpec{TypeName: "blk", Nested: labelNested}
	case labelled && which == 1:
		blocks = &hcldec.BlockObjectSpec{TypeName: "blk", LabelNames: []string{"name"}, Nested: nestedSpec}
	case labelled:
		blocks = &hcldec.BlockTupleSpec{TypeName: "blk", Nested: labelNested}
	case which == 0:
		blocks = &hcldec.BlockListSpec{TypeName: "blk", Nested: nestedSpec}
	case which == 1:
		blocks = &hcldec.BlockSpec{TypeName: "blk", Nested: nestedSpec}
	default:
		blocks = &hcldec.BlockTupleSpec{TypeName: "blk", Nested: nestedSpec, MaxItems: 1}
	}
	return hcldec.ObjectSpec{"attrs": attrs, "blocks": blocks}
}

// H_Same: every abstract configuration in the bound, in native syntax and in each
// JSON encoding, decodes to the same value (and errors coincide) under each spec,
// and exposes the same attributes and block sequence under a schema.
func H_Same() {
	c := genConfig()
	form := pick(3)
	comment := vf.Param("lean", 0) == 0 && pick(2) == 1
	nsrc, jsrc := nativeSrc(c), jsonSrc(c, form, comment)
	vf.Observe("native", nsrc)
	vf.Observe("json", jsrc)
	nf, nd := hclsyntax.ParseConfig([]byte(nsrc), "c.hcl", hcl.InitialPos)
	jf, jd := hcljson.Parse([]byte(jsrc), "c.json")
	vf.Assert(!nd.HasErrors(), "native-rendering-parses")
	vf.Assert(!jd.HasErrors(), "json-rendering-parses")
	if nd.HasErrors() || jd.HasErrors() {
		return
	}
	labelled := len(c.blocks) > 0 && c.blocks[0].hasLabel
	spec := specFor(labelled, pick(3))
	nv, ndiags := hcldec.Decode(nf.Body, spec, nil)
	jv, jdiags := hcldec.Decode(jf.Body, spec, nil)
	vf.Assert(ndiags.HasErrors() == jdiags.HasErrors(), "schema-violation-in-one-is-a-violation-in-the-other")
	if !ndiags.HasErrors() && !jdiags.HasErrors() {
		vf.Assert(nv.RawEquals(jv), "same-decoded-value")
		vf.Reach("equal")
	} else {
		vf.Reach("both-error")
	}
	// the low-level view: attributes and block sequence with labels
	var ln []string
	if labelled {
		ln = []string{"name"}
	}
	schema := &hcl.BodySchema{
		Attributes: []hcl.AttributeSchema{{Name: "p"}, {Name: "q"}},
		Blocks:     []hcl.BlockHeaderSchema{{Type: "blk", LabelNames: ln}},
	}
	nc, ncd := nf.Body.Content(schema)
	jc, jcd := jf.Body.Content(schema)
	vf.Assert(ncd.HasErrors() == jcd.HasErrors(), "content-errors-coincide")
	if !ncd.HasErrors() && !jcd.HasErrors() {
		ok := len(nc.Attributes) == len(jc.Attributes) && len(nc.Blocks) == len(jc.Blocks)
		for name := range nc.Attributes {
			if _, has := jc.Attributes[name]; !has {
				ok = false
			}
		}
		for i := 0; ok && i < len(nc.Blocks); i++ {
			a, b := nc.Blocks[i], jc.Blocks[i]
			ok = a.Type == b.Type && len(a.Labels) == len(b.Labels)
			for k := 0; ok && k < len(a.Labels); k++ {
				ok = a.Labels[k] == b.Labels[k]
			}
		}
		vf.Assert(ok, "same-attributes-and-block-sequence")
	}
}


// ---- blocks with several labels

type lblock struct {
	labels []string
	x      string
}

// renderLabelled renders consecutive blocks as JSON properties at label depth d. With
// merge, adjacent blocks that agree on the label at this depth share one property whose
// value is the nested label object (or, below the last label, an array of bodies);
// without it every block gets its own property (duplicate property names).
func renderLabelled(bs []lblock, d, nl int, merge bool) string {
	out := ""
	for i := 0; i < len(bs); {
		j := i + 1
		if merge {
			for j < len(bs) && bs[j].labels[d] == bs[i].labels[d] {
				j++
			}
		}
		if out != "" {
			out += ", "
		}
		out += `"` + bs[i].labels[d] + `": `
		if d == nl-1 {
			if j-i == 1 {
				out += `{"x": ` + bs[i].x + `}`
			} else {
				out += "["
				for k := i; k < j; k++ {
					if k > i {
						out += ", "
					}
					out += `{"x": ` + bs[k].x + `}`
				}
				out += "]"
			}
		} else {
			out += "{" + renderLabelled(bs[i:j], d+1, nl, merge) + "}"
		}
		i = j
	}
	return out
}

// H_Labels: block types with 1..maxlabels labels; 2 (or 3) blocks whose label sequences
// share symbolic prefixes, in native syntax and in the nested-label-object JSON forms
// (merged and unmerged): same decoded value, same block sequence with the same labels.
func H_Labels() {
	nl := 1 + pick(vf.Param("maxlabels", 4))
	nb := 2 + pick(vf.Param("maxblocks", 2)-1)
	var bs []lblock
	for i := 0; i < nb; i++ {
		b := lblock{x: []string{"1", `"s"`, "true"}[i%3]}
		for k := 0; k < nl; k++ {
			if i == 0 {
				b.labels = append(b.labels, "a")
				continue
			}
			l := vf.Str(1)
			vf.Assume(l[0] == 'a' || l[0] == 'b')
			b.labels = append(b.labels, l)
		}
		bs = append(bs, b)
	}
	merge := pick(2) == 1
	nsrc := ""
	for _, b := range bs {
		nsrc += "blk"
		for _, l := range b.labels {
			nsrc += ` "` + l + `"`
		}
		nsrc += " {\n  x = " + b.x + "\n}\n"
	}
	jsrc := `{"blk": {` + renderLabelled(bs, 0, nl, merge) + `}}`
	vf.Observe("native", nsrc)
	vf.Observe("json", jsrc)
	nf, nd := hclsyntax.ParseConfig([]byte(nsrc), "c.hcl", hcl.InitialPos)
	jf, jd := hcljson.Parse([]byte(jsrc), "c.json")
	vf.Assert(!nd.HasErrors(), "native-rendering-parses")
	vf.Assert(!jd.HasErrors(), "json-rendering-parses")
	if nd.HasErrors() || jd.HasErrors() {
		return
	}
	names := []string{"l0", "l1", "l2", "l3", "l4"}[:nl]
	schema := &hcl.BodySchema{Blocks: []hcl.BlockHeaderSchema{{Type: "blk", LabelNames: names}}}
	nc, ncd := nf.Body.Content(schema)
	jc, jcd := jf.Body.Content(schema)
	vf.Assert(ncd.HasErrors() == jcd.HasErrors(), "content-errors-coincide")
	if !ncd.HasErrors() && !jcd.HasErrors() {
		ok := len(nc.Blocks) == len(jc.Blocks)
		for i := 0; ok && i < len(nc.Blocks); i++ {
			a, b := nc.Blocks[i], jc.Blocks[i]
			ok = a.Type == b.Type && len(a.Labels) == len(b.Labels)
			for k := 0; ok && k < len(a.Labels); k++ {
				ok = a.Labels[k] == b.Labels[k]
			}
		}
		vf.Assert(ok, "same-block-sequence-with-same-labels")
		vf.Reach("sequence")
	}
	nested := hcldec.ObjectSpec{"x": &hcldec.AttrSpec{Name: "x", Type: cty.DynamicPseudoType}}
	var spec hcldec.Spec
	switch pick(3) {
	case 0:
		spec = &hcldec.BlockObjectSpec{TypeName: "blk", LabelNames: names, Nested: nested}
	case 1:
		spec = &hcldec.BlockMapSpec{TypeName: "blk", LabelNames: names, Nested: &hcldec.AttrSpec{Name: "x", Type: cty.String}}
	default:
		withLabels := hcldec.ObjectSpec{"x": nested["x"]}
		for i, n := range names {
			withLabels[n] = &hcldec.BlockLabelSpec{Index: i, Name: n}
		}
		spec = &hcldec.BlockTupleSpec{TypeName: "blk", Nested: withLabels}
	}
	nv, ndiags := hcldec.Decode(nf.Body, spec, nil)
	jv, jdiags := hcldec.Decode(jf.Body, spec, nil)
	vf.Assert(ndiags.HasErrors() == jdiags.HasErrors(), "schema-violation-in-one-is-a-violation-in-the-other")
	if !ndiags.HasErrors() && !jdiags.HasErrors() {
		vf.Assert(nv.RawEquals(jv), "same-decoded-value")
		vf.Reach("equal")
	}
}
