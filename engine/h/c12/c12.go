// Package c12: any sequence of writer-API edits leaves a valid file that matches the edits.
package c12

import (
	"bytes"
	"strings"

	"github.com/hashicorp/hcl/v2"
	"github.com/hashicorp/hcl/v2/hclsyntax"
	"github.com/hashicorp/hcl/v2/hclwrite"
	"github.com/zclconf/go-cty/cty"

	"verif/engine/vf"
)

// ---- the model: what a simple map/list view of the file predicts

type mBlock struct {
	typ    string
	labels []string
	body   *mBody
}

type mBody struct {
	attrs  map[string]string // name -> rendering of the value the attribute must evaluate to
	order  []string          // attribute names in insertion order
	blocks []*mBlock
}

func newMBody() *mBody { return &mBody{attrs: map[string]string{}} }

func (b *mBody) set(name, val string) {
	if _, ok := b.attrs[name]; !ok {
		b.order = append(b.order, name)
	}
	b.attrs[name] = val
}

func (b *mBody) remove(name string) {
	if _, ok := b.attrs[name]; !ok {
		return
	}
	delete(b.attrs, name)
	for i, n := range b.order {
		if n == name {
			b.order = append(b.order[:i:i], b.order[i+1:]...)
			break
		}
	}
}

func (b *mBody) rename(from, to string) bool {
	v, ok := b.attrs[from]
	_, clash := b.attrs[to]
	if !ok || clash {
		return false
	}
	delete(b.attrs, from)
	b.attrs[to] = v
	for i, n := range b.order {
		if n == from {
			b.order[i] = to
		}
	}
	return true
}

// ---- initial files

type initial struct {
	src   string
	model func() *mBody
}

var initials = []initial{
	{"", func() *mBody { return newMBody() }},
	{"# lead\na = 1 # trailing\n\nblk \"l\" {\n  c = \"s\" // inner\n}\n", func() *mBody {
		m := newMBody()
		m.set("a", "1")
		nb := newMBody()
		nb.set("c", `"s"`)
		m.blocks = append(m.blocks, &mBlock{"blk", []string{"l"}, nb})
		return m
	}},
	{"blk { c = true }\n", func() *mBody {
		m := newMBody()
		nb := newMBody()
		nb.set("c", "true")
		m.blocks = append(m.blocks, &mBlock{"blk", nil, nb})
		return m
	}},
	{"a = 1", func() *mBody {
		m := newMBody()
		m.set("a", "1")
		return m
	}},
	{"b = x.y\nblk l1 \"l2\" {\n}\n", func() *mBody {
		m := newMBody()
		m.set("b", `"XY"`)
		m.blocks = append(m.blocks, &mBlock{"blk", []string{"l1", "l2"}, newMBody()})
		return m
	}},
}

var names = []string{"a", "b", "c"}

func ctx() *hcl.EvalContext {
	return &hcl.EvalContext{Variables: map[string]cty.Value{
		"x": cty.ObjectVal(map[string]cty.Value{"y": cty.StringVal("XY")}),
	}}
}

func render(v cty.Value) string {
	switch {
	case v.IsNull():
		return "null"
	case v.Type() == cty.String:
		return `"` + v.AsString() + `"`
	case v.Type() == cty.Bool:
		if v.True() {
			return "true"
		}
		return "false"
	case v.Type() == cty.Number:
		return v.AsBigFloat().Text('f', -1)
	}
	return "?"
}

// ---- comparing a parsed file with the model

func matches(sb *hclsyntax.Body, m *mBody, tag string) {
	vf.Assert(len(sb.Attributes) == len(m.attrs), tag+"attribute-set-matches-model")
	for name, want := range m.attrs {
		attr, ok := sb.Attributes[name]
		vf.Assert(ok, tag+"attribute-set-matches-model")
		if !ok {
			continue
		}
		v, diags := attr.Expr.Value(ctx())
		vf.Assert(!diags.HasErrors() && render(v) == want, tag+"attribute-value-matches-model")
	}
	vf.Assert(len(sb.Blocks) == len(m.blocks), tag+"block-sequence-matches-model")
	for i, mb := range m.blocks {
		if i >= len(sb.Blocks) {
			break
		}
		blk := sb.Blocks[i]
		ok := blk.Type == mb.typ && len(blk.Labels) == len(mb.labels)
		for j := 0; ok && j < len(mb.labels); j++ {
			ok = blk.Labels[j] == mb.labels[j]
		}
		vf.Assert(ok, tag+"block-header-matches-model")
		matches(blk.Body, mb.body, tag)
	}
}

func accessorsMatch(wb *hclwrite.Body, m *mBody, tag string) {
	wattrs := wb.Attributes()
	vf.Assert(len(wattrs) == len(m.attrs), tag+"Attributes()-agrees-with-model")
	for _, n := range names {
		_, want := m.attrs[n]
		vf.Assert((wb.GetAttribute(n) != nil) == want, tag+"GetAttribute-agrees-with-model")
	}
	wblocks := wb.Blocks()
	vf.Assert(len(wblocks) == len(m.blocks), tag+"Blocks()-agrees-with-model")
	for i, mb := range m.blocks {
		if i >= len(wblocks) {
			break
		}
		vf.Assert(wblocks[i].Type() == mb.typ, tag+"Block.Type()-agrees-with-model")
		wl := wblocks[i].Labels()
		ok := len(wl) == len(mb.labels)
		for j := 0; ok && j < len(wl); j++ {
			ok = wl[j] == mb.labels[j]
		}
		vf.Assert(ok, tag+"Block.Labels()-agrees-with-model")
		// FirstMatchingBlock finds the first block with this header
		first := -1
		for k, other := range m.blocks {
			same := other.typ == mb.typ && len(other.labels) == len(mb.labels)
			for j := 0; same && j < len(mb.labels); j++ {
				same = other.labels[j] == mb.labels[j]
			}
			if same {
				first = k
				break
			}
		}
		fm := wb.FirstMatchingBlock(mb.typ, mb.labels)
		vf.Assert(fm != nil && first >= 0 && first < len(wblocks) && fm == wblocks[first], tag+"FirstMatchingBlock-agrees-with-model")
		accessorsMatch(wblocks[i].Body(), mb.body, tag)
	}
}

func label() string {
	s := vf.Str(vf.Param("llen", 1))
	for i := 0; i < len(s); i++ {
		if vf.Param("lalpha", 0) == 1 {
			// the characters that matter to template-escape processing
			c := s[i]
			vf.Assume(c == 'a' || c == '$' || c == '%' || c == '{')
		} else {
			vf.Assume(s[i]-0x20 < 0x5f)
		}
	}
	return s
}

// H_Edits: S symbolic edit operations from each initial file; after every step the
// serialised file parses, matches the model, and the read accessors agree.
func H_Edits() {
	steps := vf.Param("steps", 2)
	ii := vf.Param("init", -1)
	if ii < 0 {
		ii = vf.Concretize(vf.Choice(len(initials)))
	}
	init := initials[ii]
	vf.Observe("initial", ii)
	var f *hclwrite.File
	if init.src == "" && vf.Concretize(vf.Choice(2)) == 0 {
		f = hclwrite.NewEmptyFile()
	} else {
		var diags hcl.Diagnostics
		f, diags = hclwrite.ParseConfig([]byte(init.src), "x.hcl", hcl.InitialPos)
		vf.Assert(!diags.HasErrors(), "initial-file-loads")
	}
	model := init.model()
	touchedA := false
	// known findings of record
	noNewlineAppend := false // appended an item to a body whose last item has no trailing newline
	for s := 0; s < steps; s++ {
		// target body: root, or the first block's body when there is one
		wb, mb := f.Body(), model
		inBlock := false
		if len(model.blocks) > 0 && vf.Concretize(vf.Choice(2)) == 1 {
			wb, mb = f.Body().Blocks()[0].Body(), model.blocks[0].body
			inBlock = true
		}
		op := vf.Concretize(vf.Choice(9))
		name := names[vf.Concretize(vf.Choice(vf.Param("names", len(names))))]
		vf.Observe("op", op)
		appendsTo := func() {
			if _, exists := mb.attrs[name]; !exists || op >= 5 {
				if (ii == 3 && !inBlock) || (ii == 2 && inBlock) {
					noNewlineAppend = true
				}
			}
		}
		switch op {
		case 0:
			appendsTo()
			v := []cty.Value{cty.NumberIntVal(7), cty.StringVal("s"), cty.True, cty.NullVal(cty.String)}[vf.Concretize(vf.Choice(4))]
			wb.SetAttributeValue(name, v)
			mb.set(name, render(v))
		case 1:
			appendsTo()
			wb.SetAttributeTraversal(name, hcl.Traversal{hcl.TraverseRoot{Name: "x"}, hcl.TraverseAttr{Name: "y"}})
			mb.set(name, `"XY"`)
		case 2:
			appendsTo()
			wb.SetAttributeRaw(name, hclwrite.Tokens{
				{Type: hclsyntax.TokenNumberLit, Bytes: []byte("1")},
				{Type: hclsyntax.TokenPlus, Bytes: []byte("+")},
				{Type: hclsyntax.TokenNumberLit, Bytes: []byte("2")},
			})
			mb.set(name, "3")
		case 3:
			to := names[vf.Concretize(vf.Choice(len(names)))]
			got := wb.RenameAttribute(name, to)
			want := mb.rename(name, to)
			vf.Assert(got == want, "RenameAttribute-result-matches-model")
		case 4:
			got := wb.RemoveAttribute(name)
			_, had := mb.attrs[name]
			vf.Assert((got != nil) == had, "RemoveAttribute-result-matches-model")
			mb.remove(name)
		case 5:
			appendsTo()
			var labels []string
			switch vf.Concretize(vf.Choice(3)) {
			case 1:
				labels = []string{label()}
			case 2:
				labels = []string{""} // an empty label is not the same as no label
			}
			wb.AppendNewBlock("nb", labels)
			mb.blocks = append(mb.blocks, &mBlock{"nb", labels, newMBody()})
		case 6:
			if len(mb.blocks) > 0 {
				k := vf.Concretize(vf.Choice(len(mb.blocks)))
				ok := wb.RemoveBlock(wb.Blocks()[k])
				vf.Assert(ok, "RemoveBlock-succeeds")
				mb.blocks = append(mb.blocks[:k:k], mb.blocks[k+1:]...)
			}
		case 7:
			if len(mb.blocks) > 0 {
				nt := []string{"blk", "other"}[vf.Concretize(vf.Choice(2))]
				wb.Blocks()[0].SetType(nt)
				mb.blocks[0].typ = nt
			}
		case 8:
			if len(mb.blocks) > 0 {
				labels := []string{label(), "k"}
				wb.Blocks()[0].SetLabels(labels)
				mb.blocks[0].labels = labels
			}
		}
		if name == "a" && op <= 4 && !inBlock {
			touchedA = true
		}
		out := f.Bytes()
		vf.Observe("out", out)
		pf, diags := hclsyntax.ParseConfig(out, "x.hcl", hcl.InitialPos)
		vf.AssertKnown(!diags.HasErrors(), "edited-file-parses", "C12-append-after-item-without-newline", noNewlineAppend)
		if diags.HasErrors() {
			return
		}
		matches(pf.Body.(*hclsyntax.Body), model, "")
		accessorsMatch(f.Body(), model, "")
		// untouched items keep their tokens and comments
		if ii == 1 && !touchedA {
			vf.Assert(bytes.Contains(out, []byte("# lead\n")) && bytes.Contains(out, []byte("# trailing\n")), "untouched-attribute-keeps-comments")
		}
	}
	probeLookup(f.Body(), model)
	vf.Reach("done")
}

// probeLookup: FirstMatchingBlock with queries that are NEAR the header of an existing
// block (a prefix of its labels, one more empty label, its labels joined into one,
// no labels, one empty label, one symbolic byte) returns the first block with
// exactly that header, or nil.
func probeLookup(wb *hclwrite.Body, m *mBody) {
	if len(m.blocks) == 0 || vf.Param("probe", 1) == 0 {
		return
	}
	b0 := m.blocks[vf.Concretize(vf.Choice(len(m.blocks)))]
	typ := b0.typ
	var q []string
	switch vf.Concretize(vf.Choice(6)) {
	case 0:
		if len(b0.labels) > 0 {
			q = append(q, b0.labels[:len(b0.labels)-1]...)
		}
	case 1:
		q = append(append(q, b0.labels...), "")
	case 2:
		if len(b0.labels) > 0 {
			q = []string{strings.Join(b0.labels, ".")}
		}
	case 3:
	case 4:
		q = []string{""}
	case 5:
		q = []string{label()}
	}
	first := -1
	for k, b := range m.blocks {
		same := b.typ == typ && len(b.labels) == len(q)
		for j := 0; same && j < len(q); j++ {
			same = b.labels[j] == q[j]
		}
		if same {
			first = k
			break
		}
	}
	fm := wb.FirstMatchingBlock(typ, q)
	wblocks := wb.Blocks()
	if first < 0 {
		vf.Assert(fm == nil, "FirstMatchingBlock-finds-nothing-for-an-absent-header")
	} else {
		vf.Assert(first < len(wblocks) && fm == wblocks[first], "FirstMatchingBlock-near-miss-query-agrees-with-model")
	}
}
