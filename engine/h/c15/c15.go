// Package c15: all front ends are total, deterministic and report well-formed diagnostics.
package c15

import (
	"unicode/utf8"

	"github.com/hashicorp/hcl/v2"
	"github.com/hashicorp/hcl/v2/hclsyntax"
	"github.com/hashicorp/hcl/v2/hclwrite"
	hcljson "github.com/hashicorp/hcl/v2/json"
	"github.com/zclconf/go-cty/cty"
	"github.com/zclconf/go-cty/cty/function"

	"verif/engine/h/gen"
	"verif/engine/h/seeds"
	"verif/engine/vf"
)

func rangeOK(r *hcl.Range, n int) bool {
	if r == nil {
		return true
	}
	return 0 <= r.Start.Byte && r.Start.Byte <= r.End.Byte && r.End.Byte <= n
}

// checkDiags asserts that every diagnostic is well-formed and lies inside the input.
func checkDiags(diags hcl.Diagnostics, n int, what string) { checkDiagsK(diags, n, what, "", false) }

// checkDiagsK is checkDiags with a known-finding escape for the two range assertions.
func checkDiagsK(diags hcl.Diagnostics, n int, what string, kf string, sig bool) {
	for _, d := range diags {
		vf.Assert(d != nil, what+":diag-non-nil")
		if d == nil {
			continue
		}
		vf.Assert(d.Severity == hcl.DiagError || d.Severity == hcl.DiagWarning, what+":diag-severity")
		vf.Assert(d.Summary != "", what+":diag-summary")
		vf.AssertKnown(rangeOK(d.Subject, n), what+":diag-subject-in-bounds", kf, sig)
		vf.AssertKnown(rangeOK(d.Context, n), what+":diag-context-in-bounds", kf, sig)
	}
}

var upperFn = function.New(&function.Spec{
	Params: []function.Parameter{{Name: "s", Type: cty.String, AllowUnknown: false, AllowMarked: false}},
	Type:   function.StaticReturnType(cty.String),
	Impl: func(args []cty.Value, retType cty.Type) (cty.Value, error) {
		return args[0], nil
	},
})

func scopes() []*hcl.EvalContext {
	obj := cty.ObjectVal(map[string]cty.Value{"bar": cty.StringVal("x"), "c": cty.ListVal([]cty.Value{cty.NumberIntVal(1)})})
	names := []string{"a", "b", "c", "d", "e", "m", "l", "z", "x", "t", "f", "foo", "bar", "baz", "var", "name"}
	mk := func(v cty.Value) *hcl.EvalContext {
		vars := map[string]cty.Value{}
		for _, n := range names {
			vars[n] = v
		}
		return &hcl.EvalContext{Variables: vars, Functions: map[string]function.Function{"upper": upperFn, "title": upperFn, "f": upperFn}}
	}
	return []*hcl.EvalContext{
		nil,
		mk(obj),
		mk(cty.UnknownVal(cty.DynamicPseudoType)),
		mk(cty.NullVal(cty.DynamicPseudoType)),
		mk(cty.StringVal("s").Mark("m")),
		mk(cty.ListVal([]cty.Value{cty.True, cty.False})),
	}
}

var schema = &hcl.BodySchema{
	Attributes: []hcl.AttributeSchema{{Name: "a"}, {Name: "foo", Required: true}},
	Blocks:     []hcl.BlockHeaderSchema{{Type: "b", LabelNames: []string{"l"}}, {Type: "block"}},
}

// useBody applies a schema and evaluates every attribute in several scopes.
var badUTF8 bool // the current source is not valid UTF-8 (signature of a known finding for JSON template strings)

func useBody(body hcl.Body, n int, what string, evalOK bool) {
	if body == nil {
		return
	}
	_, diags := body.Content(schema)
	checkDiags(diags, n, what+":content")
	_, remain, diags := body.PartialContent(schema)
	checkDiags(diags, n, what+":partial")
	if remain != nil {
		_, diags = remain.JustAttributes()
		checkDiags(diags, n, what+":remain-attrs")
	}
	attrs, diags := body.JustAttributes()
	checkDiags(diags, n, what+":attrs")
	if !evalOK {
		return
	}
	for _, attr := range attrs {
		for _, ctx := range scopes() {
			_, vdiags := attr.Expr.Value(ctx)
			checkDiagsK(vdiags, n, what+":eval", "C15-json-template-ranges-invalid-utf8", what == "json" && badUTF8)
		}
		_ = attr.Expr.Variables()
	}
}

func nativeConfig(src []byte) {
	n := len(src)
	f, diags := hclsyntax.ParseConfig(src, "x.hcl", hcl.InitialPos)
	vf.Assert(f != nil && f.Body != nil, "hclsyntax.ParseConfig:non-nil")
	checkDiags(diags, n, "hclsyntax.ParseConfig")
	vf.Observe("config-errs", diags.HasErrors())
	if f != nil {
		useBody(f.Body, n, "native", !diags.HasErrors())
	}
}

func nativeExpr(src []byte) {
	n := len(src)
	e, diags := hclsyntax.ParseExpression(src, "x.hcl", hcl.InitialPos)
	vf.Assert(e != nil, "hclsyntax.ParseExpression:non-nil")
	checkDiags(diags, n, "hclsyntax.ParseExpression")
	vf.Observe("expr-errs", diags.HasErrors())
	if e != nil && !diags.HasErrors() {
		for _, ctx := range scopes() {
			_, vdiags := e.Value(ctx)
			checkDiags(vdiags, n, "expr:eval")
		}
		_ = e.Variables()
		_, tdiags := hcl.AbsTraversalForExpr(e)
		checkDiags(tdiags, n, "expr:traversal")
	}
}

func nativeTemplate(src []byte) {
	n := len(src)
	e, diags := hclsyntax.ParseTemplate(src, "x.hcl", hcl.InitialPos)
	vf.Assert(e != nil, "hclsyntax.ParseTemplate:non-nil")
	checkDiags(diags, n, "hclsyntax.ParseTemplate")
	vf.Observe("tmpl-errs", diags.HasErrors())
	if e != nil && !diags.HasErrors() {
		for _, ctx := range scopes() {
			_, vdiags := e.Value(ctx)
			checkDiags(vdiags, n, "template:eval")
		}
	}
}

func nativeTraversal(src []byte) {
	n := len(src)
	_, diags := hclsyntax.ParseTraversalAbs(src, "x.hcl", hcl.InitialPos)
	checkDiags(diags, n, "hclsyntax.ParseTraversalAbs")
	_, diags2 := hclsyntax.ParseTraversalPartial(src, "x.hcl", hcl.InitialPos)
	checkDiags(diags2, n, "hclsyntax.ParseTraversalPartial")
	vf.Observe("trav-errs", diags.HasErrors())
}

func jsonFile(src []byte) {
	n := len(src)
	badUTF8 = !utf8.Valid(src)
	f, diags := hcljson.Parse(src, "x.json")
	vf.Assert(f != nil && f.Body != nil, "json.Parse:non-nil")
	checkDiags(diags, n, "json.Parse")
	vf.Observe("json-errs", diags.HasErrors())
	if f != nil {
		useBody(f.Body, n, "json", !diags.HasErrors())
	}
	e, ediags := hcljson.ParseExpression(src, "x.json")
	vf.Assert(e != nil, "json.ParseExpression:non-nil")
	checkDiags(ediags, n, "json.ParseExpression")
	if e != nil && !ediags.HasErrors() {
		for _, ctx := range scopes() {
			_, vdiags := e.Value(ctx)
			checkDiagsK(vdiags, n, "jsonexpr:eval", "C15-json-template-ranges-invalid-utf8", badUTF8)
		}
		_ = e.Variables()
	}
}

func writer(src []byte) {
	n := len(src)
	f, diags := hclwrite.ParseConfig(src, "x.hcl", hcl.InitialPos)
	checkDiags(diags, n, "hclwrite.ParseConfig")
	vf.Assert(diags.HasErrors() || f != nil, "hclwrite.ParseConfig:file-or-error")
	if f != nil && !diags.HasErrors() {
		_ = f.Bytes()
	}
	out := hclwrite.Format(src)
	vf.Observe("fmt-len", len(out))
}

func all(src []byte, which int) {
	switch which {
	case 0:
		nativeConfig(src)
	case 1:
		nativeExpr(src)
	case 2:
		nativeTemplate(src)
	case 3:
		nativeTraversal(src)
	case 4:
		jsonFile(src)
	case 5:
		writer(src)
	}
}

// H_Bytes: every byte string of n bytes through entry point `which` (concretised choice).
func H_Bytes() {
	n := vf.Param("n", 2)
	which := vf.Concretize(vf.Choice(6))
	src := vf.Bytes(n)
	vf.Observe("which", which)
	all(src, which)
	vf.Reach("done")
}

func seedList(which int) []seeds.Seed {
	switch which {
	case 0, 5:
		return append(append([]seeds.Seed{}, seeds.CorpusConfig...), seeds.ExtraConfig...)
	case 1:
		return seeds.CorpusExpr
	case 2:
		return append(append([]seeds.Seed{}, seeds.CorpusTemplate...), seeds.ExtraTemplate...)
	case 3:
		return seeds.CorpusTraversal
	}
	return append(append([]seeds.Seed{}, seeds.CorpusJSON...), seeds.ExtraJSON...)
}

// mutate returns seed text with a w-byte symbolic window substituted (op 0),
// inserted (op 1) at offset off, or w bytes deleted (op 2).
func mutate(text string, op, off, w int) []byte {
	b := []byte(text)
	switch op {
	case 0:
		if off+w > len(b) {
			w = len(b) - off
		}
		out := append([]byte{}, b[:off]...)
		out = append(out, vf.Bytes(w)...)
		return append(out, b[off+w:]...)
	case 1:
		out := append([]byte{}, b[:off]...)
		out = append(out, vf.Bytes(w)...)
		return append(out, b[off:]...)
	default:
		if off+w > len(b) {
			w = len(b) - off
		}
		out := append([]byte{}, b[:off]...)
		return append(out, b[off+w:]...)
	}
}

// H_Seed: every seed of the entry point's corpus x every offset x {substitute,
// insert, delete} of a w-byte window whose bytes are fully symbolic.
func H_Seed() {
	w := vf.Param("w", 1)
	which := vf.Param("which", 0)
	list := seedList(which)
	stride := vf.Param("stride", 1)
	si := vf.Concretize(vf.Choice(len(list)))
	text := list[si].Text
	if len(text) > vf.Param("maxlen", 120) {
		text = text[:vf.Param("maxlen", 120)]
	}
	op := vf.Concretize(vf.Choice(3))
	noff := len(text)/stride + 1
	off := vf.Concretize(vf.Choice(noff)) * stride
	if off > len(text) {
		off = len(text)
	}
	src := mutate(text, op, off, w)
	vf.Observe("seed", si)
	vf.Observe("op", op)
	vf.Observe("off", off)
	all(src, which)
	vf.Reach("done")
}

// H_Gen: every grammar-generated expression (package gen, depth bound) as an attribute
// value and inside a template, through parse, schema application and evaluation in all scopes.
func H_Gen() {
	e := gen.Expr(vf.Param("depth", 1), vf.Concretize(vf.Choice(2)))
	var src []byte
	if vf.Concretize(vf.Choice(2)) == 0 {
		src = []byte("foo = " + e + "\nb \"l\" {\n  a = [" + e + "]\n}\n")
	} else {
		src = []byte("foo = <<EOT\n  ${" + e + "}\nEOT\n")
	}
	vf.Observe("src", string(src))
	nativeConfig(src)
	writer(src)
	vf.Reach("done")
}
