// Package vfmodel holds Go models of reflection-based standard-library entry
// points. Under the symbolic engine they are interpreted (so they work on
// symbolic bytes); natively they are validated against the real functions by
// the tests in this package.
package vfmodel

import "unicode/utf8"

func isSpace(c byte) bool { return c == ' ' || c == '\t' || c == '\r' || c == '\n' }

func hexVal(c byte) int {
	switch {
	case '0' <= c && c <= '9':
		return int(c - '0')
	case 'a' <= c && c <= 'f':
		return int(c-'a') + 10
	case 'A' <= c && c <= 'F':
		return int(c-'A') + 10
	}
	return -1
}

// UnmarshalString models encoding/json.Unmarshal(data, *string) for data whose
// first non-space byte is '"'. errOffset < 0 means success; otherwise it is
// the Offset of the *json.SyntaxError the real function returns. other is true
// when the data is valid JSON but not a string (UnmarshalTypeError in the real
// function; not reachable from hcl, which only passes string tokens).
func UnmarshalString(data []byte) (s string, errOffset int64) {
	i := 0
	for i < len(data) && isSpace(data[i]) {
		i++
	}
	if i >= len(data) {
		return "", int64(len(data))
	}
	if data[i] != '"' {
		return "", int64(i + 1)
	}
	i++
	start := i
	// pass 1: syntax (the real decoder validates the whole text first)
	for {
		if i >= len(data) {
			return "", int64(len(data))
		}
		c := data[i]
		if c == '"' {
			break
		}
		if c < 0x20 {
			return "", int64(i + 1)
		}
		if c == '\\' {
			i++
			if i >= len(data) {
				return "", int64(len(data))
			}
			switch data[i] {
			case '"', '\\', '/', 'b', 'f', 'n', 'r', 't':
			case 'u':
				for k := 0; k < 4; k++ {
					i++
					if i >= len(data) {
						return "", int64(len(data))
					}
					if hexVal(data[i]) < 0 {
						return "", int64(i + 1)
					}
				}
			default:
				return "", int64(i + 1)
			}
		}
		i++
	}
	end := i
	i++
	for i < len(data) {
		if !isSpace(data[i]) {
			return "", int64(i + 1)
		}
		i++
	}
	// pass 2: unquote
	b := make([]byte, 0, end-start)
	r := start
	for r < end {
		c := data[r]
		switch {
		case c == '\\':
			r++
			switch data[r] {
			case '"', '\\', '/':
				b = append(b, data[r])
				r++
			case 'b':
				b = append(b, '\b')
				r++
			case 'f':
				b = append(b, '\f')
				r++
			case 'n':
				b = append(b, '\n')
				r++
			case 'r':
				b = append(b, '\r')
				r++
			case 't':
				b = append(b, '\t')
				r++
			case 'u':
				rr := getu4(data[r-1 : end])
				r += 5
				if utf16IsSurrogate(rr) {
					if r+6 <= end && data[r] == '\\' && data[r+1] == 'u' {
						rr1 := getu4(data[r:end])
						if dec := utf16Decode(rr, rr1); dec != utf8.RuneError {
							r += 6
							b = utf8.AppendRune(b, dec)
							break
						}
					}
					rr = utf8.RuneError
				}
				b = utf8.AppendRune(b, rr)
			}
		case c < utf8.RuneSelf:
			b = append(b, c)
			r++
		default:
			rr, size := utf8.DecodeRune(data[r:end])
			r += size
			b = utf8.AppendRune(b, rr)
		}
	}
	return string(b), -1
}

func getu4(s []byte) rune {
	// s starts with \uXXXX (already validated)
	var r rune
	for _, c := range s[2:6] {
		r = r*16 + rune(hexVal(c))
	}
	return r
}

func utf16IsSurrogate(r rune) bool { return 0xd800 <= r && r < 0xe000 }

func utf16Decode(r1, r2 rune) rune {
	if 0xd800 <= r1 && r1 < 0xdc00 && 0xdc00 <= r2 && r2 < 0xe000 {
		return (r1-0xd800)<<10 | (r2 - 0xdc00) + 0x10000
	}
	return utf8.RuneError
}

// ValidNumberToken models encoding/json.Unmarshal(data, *json.Number) == nil for
// data that begins with '-' or a digit (what hcl's JSON scanner classifies as a number token).
func ValidNumberToken(data []byte) bool {
	i, n := 0, len(data)
	for i < n && isSpace(data[i]) {
		i++
	}
	j := n
	for j > i && isSpace(data[j-1]) {
		j--
	}
	s := data[i:j]
	if len(s) == 0 {
		return false
	}
	k := 0
	if s[k] == '-' {
		k++
		if k == len(s) {
			return false
		}
	}
	switch {
	case s[k] == '0':
		k++
	case '1' <= s[k] && s[k] <= '9':
		k++
		for k < len(s) && '0' <= s[k] && s[k] <= '9' {
			k++
		}
	default:
		return false
	}
	if k < len(s) && s[k] == '.' {
		k++
		if k == len(s) || s[k] < '0' || s[k] > '9' {
			return false
		}
		for k < len(s) && '0' <= s[k] && s[k] <= '9' {
			k++
		}
	}
	if k < len(s) && (s[k] == 'e' || s[k] == 'E') {
		k++
		if k < len(s) && (s[k] == '+' || s[k] == '-') {
			k++
		}
		if k == len(s) || s[k] < '0' || s[k] > '9' {
			return false
		}
		for k < len(s) && '0' <= s[k] && s[k] <= '9' {
			k++
		}
	}
	return k == len(s)
}
