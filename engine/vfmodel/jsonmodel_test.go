package vfmodel

import (
	"encoding/json"
	"testing"
)

// The models must agree with encoding/json on every input over a stress alphabet.
func TestUnmarshalStringAgainstStdlib(t *testing.T) {
	alpha := []byte{'"', '\\', 'u', 'd', '8', '0', 'c', 'n', 'x', ' ', '\n', 0x1f, 0x7f, 0x80, 0xc3, 0xa9, 0xed, 0xa0, 0xf0, 0x9f, 'a', '/', 'D', 'F', 'f', 'b', 't', 'r'}
	var rec func(buf []byte, depth int)
	n := 0
	rec = func(buf []byte, depth int) {
		data := append([]byte{'"'}, buf...)
		var want string
		err := json.Unmarshal(data, &want)
		got, off := UnmarshalString(data)
		n++
		if (err == nil) != (off < 0) {
			t.Fatalf("%q: stdlib err=%v model off=%d", data, err, off)
		}
		if err == nil && got != want {
			t.Fatalf("%q: stdlib %q model %q", data, want, got)
		}
		if se, ok := err.(*json.SyntaxError); ok && se.Offset != off {
			t.Fatalf("%q: stdlib offset %d model %d", data, se.Offset, off)
		}
		if depth == 0 {
			return
		}
		for _, c := range alpha {
			rec(append(buf[:len(buf):len(buf)], c), depth-1)
		}
	}
	rec(nil, 4)
	// surrogate pairs and longer escapes
	for _, s := range []string{`"😀"`, `"\ud83d"`, `"\ud83dx"`, `"\ud83dA"`, `"\ude00\ud83d"`, `"é\u0000"`, `"😀"`, ` "a" `, `"a" x`, `"\u12"`, `"\u12G4"`, `"a`, `"a\`, "\"\xed\xa0\x80\"", "\"\xf4\x90\x80\x80\"", "\"\xe2\x82\"", `"\ud83d\ude0"`, `"\ud83d\ude0G"`, `"\ud83d\n"`} {
		var want string
		err := json.Unmarshal([]byte(s), &want)
		got, off := UnmarshalString([]byte(s))
		if (err == nil) != (off < 0) || (err == nil && got != want) {
			t.Fatalf("%q: stdlib (%q,%v) model (%q,%d)", s, want, err, got, off)
		}
		if se, ok := err.(*json.SyntaxError); ok && se.Offset != off {
			t.Fatalf("%q: stdlib offset %d model %d", s, se.Offset, off)
		}
	}
	t.Logf("%d inputs compared", n)
}

func TestValidNumberAgainstStdlib(t *testing.T) {
	alpha := []byte{'-', '+', '0', '1', '9', '.', 'e', 'E', ' ', 'x'}
	var rec func(buf []byte, depth int)
	n := 0
	rec = func(buf []byte, depth int) {
		if len(buf) > 0 && (buf[0] == '-' || (buf[0] >= '0' && buf[0] <= '9')) {
			var num json.Number
			err := json.Unmarshal(buf, &num)
			if got := ValidNumberToken(buf); got != (err == nil) {
				t.Fatalf("%q: stdlib err=%v model %v", buf, err, got)
			}
			n++
		}
		if depth == 0 {
			return
		}
		for _, c := range alpha {
			rec(append(buf[:len(buf):len(buf)], c), depth-1)
		}
	}
	rec(nil, 6)
	t.Logf("%d inputs compared", n)
}
