package smt

import (
	"math/rand"
	"os/exec"
	"testing"
)

// The constant folder / evaluator must agree with the solver on random terms.
func TestEvalAgainstSolver(t *testing.T) {
	if _, err := exec.LookPath("z3-new"); err != nil {
		t.Skip("no solver")
	}
	s, err := NewSolver()
	if err != nil {
		t.Fatal(err)
	}
	defer s.Close()
	rng := rand.New(rand.NewSource(1))
	for iter := 0; iter < 300; iter++ {
		c := NewCtx()
		x, y := c.Var(8, "x"), c.Var(8, "y")
		var gen func(d int) *Term
		gen = func(d int) *Term {
			if d == 0 {
				switch rng.Intn(3) {
				case 0:
					return x
				case 1:
					return y
				}
				return c.BV(8, uint64(rng.Intn(256)))
			}
			a, b := gen(d-1), gen(d-1)
			ops := []Op{OpAdd, OpSub, OpMul, OpUDiv, OpURem, OpSDiv, OpSRem, OpBAnd, OpBOr, OpBXor, OpShl, OpLShr, OpAShr}
			switch rng.Intn(4) {
			case 0:
				return c.Ite(c.Cmp([]Op{OpULt, OpULe, OpSLt, OpSLe}[rng.Intn(4)], a, b), a, b)
			case 1:
				return c.Extract(c.SignExt(c.Concat(a, b), 32), 11, 4)
			case 2:
				return c.Un([]Op{OpBNot, OpNeg}[rng.Intn(2)], a)
			}
			return c.Bin(ops[rng.Intn(len(ops))], a, b)
		}
		tm := gen(3)
		xv, yv := uint64(rng.Intn(256)), uint64(rng.Intn(256))
		c.SetModel(map[string]uint64{"x": xv, "y": yv})
		want := c.Eval(tm)
		s.Begin()
		s.Assert(c.Eq(x, c.BV(8, xv)))
		s.Assert(c.Eq(y, c.BV(8, yv)))
		r, _ := s.Check(c.Vars, c.Not(c.Eq(tm, c.BV(8, want))))
		s.End()
		if r != Unsat {
			t.Fatalf("iter %d: evaluator says %d for x=%d y=%d but solver disagrees (%v)", iter, want, xv, yv, r)
		}
	}
}
