package smt

import (
	"bufio"
	"fmt"
	"io"
	"os/exec"
	"strconv"
	"strings"
	"time"
)

// Solver is one long-lived solver process spoken to in SMT-LIB2.
// Usage per path: Begin(); Assert*/Check*; End().
type Solver struct {
	cmd      *exec.Cmd
	in       io.WriteCloser
	out      *bufio.Reader
	args     []string
	gen      int
	pending  []*Term
	buf      strings.Builder
	sentPush bool
	Log      io.Writer // optional query log (for cross-checking with other solvers)

	Queries, Sat, Unsat, Unknown int
	Time                         time.Duration
	paths                        int
	Errors                       []string
}

func NewSolver(args ...string) (*Solver, error) {
	if len(args) == 0 {
		args = []string{"z3-new", "-in"}
	}
	s := &Solver{args: args}
	if err := s.start(); err != nil {
		return nil, err
	}
	return s, nil
}

func (s *Solver) start() error {
	s.cmd = exec.Command(s.args[0], s.args[1:]...)
	in, err := s.cmd.StdinPipe()
	if err != nil {
		return err
	}
	out, err := s.cmd.StdoutPipe()
	if err != nil {
		return err
	}
	s.cmd.Stderr = s.cmd.Stdout
	if err := s.cmd.Start(); err != nil {
		return err
	}
	s.in = in
	s.out = bufio.NewReaderSize(out, 1<<16)
	s.send("(set-option :print-success false)\n(set-option :produce-models true)\n")
	return nil
}

func (s *Solver) Close() {
	if s.cmd != nil {
		s.in.Close()
		s.cmd.Process.Kill()
		s.cmd.Wait()
		s.cmd = nil
	}
}

func (s *Solver) send(str string) {
	if s.Log != nil {
		io.WriteString(s.Log, str)
	}
	io.WriteString(s.in, str)
}

// Begin opens the scope of a new path.
func (s *Solver) Begin() {
	s.paths++
	if s.paths%2000 == 0 { // bound solver memory
		s.Close()
		if err := s.start(); err != nil {
			panic(err)
		}
	}
	s.gen++
	s.pending = s.pending[:0]
	s.buf.Reset()
	s.sentPush = false
	s.buf.WriteString("(push 1)\n")
}

// End closes the scope of the path.
func (s *Solver) End() {
	if !s.sentPush {
		// nothing was ever sent for this path
		s.buf.Reset()
		return
	}
	s.buf.Reset()
	s.send("(pop 1)\n")
}

func sortOf(t *Term) string {
	if t.W == 0 {
		return "Bool"
	}
	return "(_ BitVec " + strconv.Itoa(t.W) + ")"
}

func bvLit(w int, v uint64) string {
	if w%4 == 0 {
		return fmt.Sprintf("#x%0*x", w/4, v)
	}
	return fmt.Sprintf("#b%0*b", w, v)
}

// ref returns the textual reference for t, emitting definitions as needed.
func (s *Solver) ref(t *Term) string {
	switch t.Op {
	case OpBVConst:
		return bvLit(t.W, t.K)
	case OpTrue:
		return "true"
	case OpFalse:
		return "false"
	}
	name := "t" + strconv.Itoa(t.id)
	if t.Op == OpBVVar || t.Op == OpBoolVar {
		name = t.Name
	}
	if t.defGen == s.gen {
		return name
	}
	t.defGen = s.gen
	switch t.Op {
	case OpBVVar, OpBoolVar:
		fmt.Fprintf(&s.buf, "(declare-const %s %s)\n", name, sortOf(t))
		return name
	}
	var body string
	switch t.Op {
	case OpExtract:
		body = fmt.Sprintf("((_ extract %d %d) %s)", t.K>>8, t.K&0xff, s.ref(t.A))
	case OpZeroExt:
		body = fmt.Sprintf("((_ zero_extend %d) %s)", t.W-t.A.W, s.ref(t.A))
	case OpSignExt:
		body = fmt.Sprintf("((_ sign_extend %d) %s)", t.W-t.A.W, s.ref(t.A))
	default:
		body = "(" + opNames[t.Op]
		for _, x := range []*Term{t.A, t.B, t.C} {
			if x != nil {
				body += " " + s.ref(x)
			}
		}
		body += ")"
	}
	fmt.Fprintf(&s.buf, "(define-fun %s () %s %s)\n", name, sortOf(t), body)
	return name
}

// Assert adds t to the path scope (buffered until the next Check).
func (s *Solver) Assert(t *Term) {
	if t.Op == OpTrue {
		return
	}
	s.pending = append(s.pending, t)
}

type Result int

const (
	Unsat Result = iota
	Sat
	UnknownRes
)

var sentinel = "\"--vf-done--\""

// Check decides (path assertions ∧ extra...) and returns a model over vars when sat.
func (s *Solver) Check(vars []*Term, extra ...*Term) (Result, map[string]uint64) {
	t0 := time.Now()
	defer func() { s.Time += time.Since(t0) }()
	s.Queries++
	for _, t := range s.pending {
		r := s.ref(t)
		s.buf.WriteString("(assert " + r + ")\n")
	}
	s.pending = s.pending[:0]
	refs := make([]string, len(extra))
	for i, e := range extra {
		refs[i] = s.ref(e)
	}
	for _, v := range vars {
		s.ref(v)
	}
	s.buf.WriteString("(push 1)\n")
	for _, r := range refs {
		s.buf.WriteString("(assert " + r + ")\n")
	}
	s.buf.WriteString("(check-sat)\n")
	if len(vars) > 0 {
		s.buf.WriteString("(get-value (")
		for _, v := range vars {
			s.buf.WriteString(v.Name + " ")
		}
		s.buf.WriteString("))\n")
	}
	s.buf.WriteString("(echo " + sentinel + ")\n(pop 1)\n")
	s.sentPush = true
	s.send(s.buf.String())
	s.buf.Reset()
	lines := s.readUntilSentinel()
	res := UnknownRes
	rest := ""
	for i, l := range lines {
		if l == "sat" || l == "unsat" || l == "unknown" {
			switch l {
			case "sat":
				res = Sat
			case "unsat":
				res = Unsat
			}
			rest = strings.Join(lines[i+1:], " ")
			break
		}
		if strings.HasPrefix(l, "(error") {
			s.Errors = append(s.Errors, l)
			break
		}
	}
	var model map[string]uint64
	if res == Sat {
		model = map[string]uint64{}
		if strings.Contains(rest, "(error") {
			s.Errors = append(s.Errors, rest)
			res = UnknownRes
		} else {
			parseModel(rest, model)
		}
	}
	switch res {
	case Sat:
		s.Sat++
	case Unsat:
		s.Unsat++
	default:
		s.Unknown++
	}
	return res, model
}

func (s *Solver) readUntilSentinel() []string {
	var lines []string
	for {
		l, err := s.out.ReadString('\n')
		l = strings.TrimSpace(l)
		if l == sentinel || l == strings.Trim(sentinel, "\"") {
			return lines
		}
		if l != "" {
			lines = append(lines, l)
		}
		if err != nil {
			lines = append(lines, "(error \"solver died: "+err.Error()+"\")")
			return lines
		}
	}
}

// parseModel reads "((v0 #x41) (v1 true) ...)".
func parseModel(txt string, m map[string]uint64) {
	f := strings.FieldsFunc(txt, func(r rune) bool { return r == '(' || r == ')' || r == ' ' || r == '\n' || r == '\t' })
	for i := 0; i+1 < len(f); i += 2 {
		name, val := f[i], f[i+1]
		switch {
		case val == "true":
			m[name] = 1
		case val == "false":
			m[name] = 0
		case strings.HasPrefix(val, "#x"):
			v, _ := strconv.ParseUint(val[2:], 16, 64)
			m[name] = v
		case strings.HasPrefix(val, "#b"):
			v, _ := strconv.ParseUint(val[2:], 2, 64)
			m[name] = v
		case val == "_": // (_ bv10 32) form
			if i+3 < len(f) && strings.HasPrefix(f[i+2], "bv") {
				v, _ := strconv.ParseUint(f[i+2][2:], 10, 64)
				m[name] = v
				i += 2
			}
		}
	}
}
