// Package smt is a small bit-vector/boolean term DAG with constant folding,
// an evaluator under a model, an SMT-LIB2 printer and a pipe to a long-lived
// solver process.
package smt

import (
	"fmt"
	"math/bits"
)

type Op uint8

const (
	OpBVConst Op = iota
	OpBVVar
	OpTrue
	OpFalse
	OpBoolVar
	OpNot
	OpAnd
	OpOr
	OpEq // bv = bv, or bool = bool
	OpIte
	OpAdd
	OpSub
	OpMul
	OpUDiv
	OpURem
	OpSDiv
	OpSRem
	OpBAnd
	OpBOr
	OpBXor
	OpBNot
	OpNeg
	OpShl
	OpLShr
	OpAShr
	OpULt
	OpULe
	OpSLt
	OpSLe
	OpExtract // K = hi<<8|lo
	OpZeroExt // W = new width
	OpSignExt
	OpConcat
)

var opNames = map[Op]string{
	OpNot: "not", OpAnd: "and", OpOr: "or", OpEq: "=", OpIte: "ite",
	OpAdd: "bvadd", OpSub: "bvsub", OpMul: "bvmul", OpUDiv: "bvudiv", OpURem: "bvurem",
	OpSDiv: "bvsdiv", OpSRem: "bvsrem", OpBAnd: "bvand", OpBOr: "bvor", OpBXor: "bvxor",
	OpBNot: "bvnot", OpNeg: "bvneg", OpShl: "bvshl", OpLShr: "bvlshr", OpAShr: "bvashr",
	OpULt: "bvult", OpULe: "bvule", OpSLt: "bvslt", OpSLe: "bvsle", OpConcat: "concat",
}

// Term is an immutable node. W==0 means Bool, otherwise a bit-vector of W bits (W<=64).
type Term struct {
	Op      Op
	W       int
	A, B, C *Term
	K       uint64 // constant value / extract bounds
	Name    string // variables
	H       uint64 // structural hash
	id      int    // per-context number (for printing)
	ev      uint64 // memoised evaluation
	evGen   int
	Idx     int // variables: index into Ctx.Vars
	// cached variable summary: VarN = 0, 1 or 2 (two or more); VarV the single variable
	VarV   *Term
	VarN   int8
	varOK  bool
	defGen int // solver: defined in the scope numbered defGen
}

func (t *Term) IsBool() bool  { return t.W == 0 }
func (t *Term) IsConst() bool { return t.Op == OpBVConst || t.Op == OpTrue || t.Op == OpFalse }

type key struct {
	op      Op
	w       int
	a, b, c *Term
	k       uint64
	name    string
}

// Ctx interns terms (so that equal terms are pointer-equal within one path)
// and owns the variable list of the path.
type Ctx struct {
	tab   map[uint64]*Term
	Vars  []*Term
	vals  []uint64 // current model, by variable index
	next  int
	T, F  *Term
	evGen int
	Model map[string]uint64
}

func NewCtx() *Ctx {
	c := &Ctx{tab: make(map[uint64]*Term, 256), evGen: 1, Model: map[string]uint64{}}
	c.T = c.mk(OpTrue, 0, nil, nil, nil, 0, "")
	c.F = c.mk(OpFalse, 0, nil, nil, nil, 0, "")
	return c
}

func mix(h uint64, x uint64) uint64 {
	h ^= x + 0x9e3779b97f4a7c15 + (h << 6) + (h >> 2)
	return h * 0xff51afd7ed558ccd
}

func (c *Ctx) mk(op Op, w int, a, b, cc *Term, k uint64, name string) *Term {
	h := mix(uint64(op)+1, uint64(w))
	h = mix(h, k)
	for i := 0; i < len(name); i++ {
		h = mix(h, uint64(name[i]))
	}
	for _, x := range []*Term{a, b, cc} {
		if x != nil {
			h = mix(h, x.H)
		} else {
			h = mix(h, 7)
		}
	}
	for probe := h; ; probe++ {
		t, ok := c.tab[probe]
		if !ok {
			t = &Term{Op: op, W: w, A: a, B: b, C: cc, K: k, Name: name, H: h, id: c.next}
			c.next++
			c.tab[probe] = t
			return t
		}
		if t.Op == op && t.W == w && t.A == a && t.B == b && t.C == cc && t.K == k && t.Name == name {
			return t
		}
	}
}

func mask(w int) uint64 {
	if w >= 64 {
		return ^uint64(0)
	}
	return (uint64(1) << uint(w)) - 1
}

func sext(v uint64, w int) int64 {
	if w >= 64 {
		return int64(v)
	}
	sh := uint(64 - w)
	return int64(v<<sh) >> sh
}

func (c *Ctx) BV(w int, v uint64) *Term { return c.mk(OpBVConst, w, nil, nil, nil, v&mask(w), "") }
func (c *Ctx) Bool(b bool) *Term {
	if b {
		return c.T
	}
	return c.F
}

// Var returns the variable of that name (creating it). Names must be unique per sort.
func (c *Ctx) Var(w int, name string) *Term {
	op := OpBVVar
	if w == 0 {
		op = OpBoolVar
	}
	n := c.next
	t := c.mk(op, w, nil, nil, nil, 0, name)
	if c.next != n { // newly created
		t.Idx = len(c.Vars)
		c.Vars = append(c.Vars, t)
		c.vals = append(c.vals, c.Model[name])
	}
	return t
}

func (c *Ctx) Not(a *Term) *Term {
	switch a.Op {
	case OpTrue:
		return c.F
	case OpFalse:
		return c.T
	case OpNot:
		return a.A
	}
	return c.mk(OpNot, 0, a, nil, nil, 0, "")
}

func (c *Ctx) And(a, b *Term) *Term {
	if a.Op == OpFalse || b.Op == OpFalse {
		return c.F
	}
	if a.Op == OpTrue {
		return b
	}
	if b.Op == OpTrue {
		return a
	}
	if a == b {
		return a
	}
	return c.mk(OpAnd, 0, a, b, nil, 0, "")
}

func (c *Ctx) Or(a, b *Term) *Term {
	if a.Op == OpTrue || b.Op == OpTrue {
		return c.T
	}
	if a.Op == OpFalse {
		return b
	}
	if b.Op == OpFalse {
		return a
	}
	if a == b {
		return a
	}
	return c.mk(OpOr, 0, a, b, nil, 0, "")
}

func (c *Ctx) Eq(a, b *Term) *Term {
	if a.W != b.W {
		panic(fmt.Sprintf("smt.Eq: width mismatch %d vs %d", a.W, b.W))
	}
	if a == b {
		return c.T
	}
	if a.IsConst() && b.IsConst() {
		if a.W == 0 {
			return c.Bool(a.Op == b.Op)
		}
		return c.Bool(a.K == b.K)
	}
	if a.W == 0 {
		// bool equality with constants
		if a.Op == OpTrue {
			return b
		}
		if b.Op == OpTrue {
			return a
		}
		if a.Op == OpFalse {
			return c.Not(b)
		}
		if b.Op == OpFalse {
			return c.Not(a)
		}
	}
	// canonical order: constant second
	if a.IsConst() {
		a, b = b, a
	}
	// (zero_extend x) == const: narrow
	if b.Op == OpBVConst && (a.Op == OpZeroExt) {
		if b.K&^mask(a.A.W) != 0 {
			return c.F
		}
		return c.Eq(a.A, c.BV(a.A.W, b.K))
	}
	if b.Op == OpBVConst && a.Op == OpIte && a.B.Op == OpBVConst && a.C.Op == OpBVConst {
		// ite(c, k1, k2) == k
		tb, fb := a.B.K == b.K, a.C.K == b.K
		switch {
		case tb && fb:
			return c.T
		case tb:
			return a.A
		case fb:
			return c.Not(a.A)
		default:
			return c.F
		}
	}
	return c.mk(OpEq, 0, a, b, nil, 0, "")
}

func (c *Ctx) Ite(cond, a, b *Term) *Term {
	if cond.Op == OpTrue {
		return a
	}
	if cond.Op == OpFalse {
		return b
	}
	if a == b {
		return a
	}
	if a.W != b.W {
		panic("smt.Ite: width mismatch")
	}
	if a.W == 0 {
		if a.Op == OpTrue && b.Op == OpFalse {
			return cond
		}
		if a.Op == OpFalse && b.Op == OpTrue {
			return c.Not(cond)
		}
	}
	return c.mk(OpIte, a.W, cond, a, b, 0, "")
}

func evalBin(op Op, w int, x, y uint64) uint64 {
	m := mask(w)
	switch op {
	case OpAdd:
		return (x + y) & m
	case OpSub:
		return (x - y) & m
	case OpMul:
		return (x * y) & m
	case OpUDiv:
		if y == 0 {
			return m
		}
		return x / y
	case OpURem:
		if y == 0 {
			return x
		}
		return x % y
	case OpSDiv:
		sx, sy := sext(x, w), sext(y, w)
		if sy == 0 {
			if sx < 0 {
				return 1
			}
			return m
		}
		if sy == -1 {
			return uint64(-sx) & m
		}
		return uint64(sx/sy) & m
	case OpSRem:
		sx, sy := sext(x, w), sext(y, w)
		if sy == 0 {
			return x
		}
		if sy == -1 {
			return 0
		}
		return uint64(sx%sy) & m
	case OpBAnd:
		return x & y
	case OpBOr:
		return x | y
	case OpBXor:
		return x ^ y
	case OpShl:
		if y >= uint64(w) {
			return 0
		}
		return (x << y) & m
	case OpLShr:
		if y >= uint64(w) {
			return 0
		}
		return x >> y
	case OpAShr:
		sx := sext(x, w)
		if y >= uint64(w) {
			if sx < 0 {
				return m
			}
			return 0
		}
		return uint64(sx>>y) & m
	}
	panic("evalBin")
}

func evalCmp(op Op, w int, x, y uint64) bool {
	switch op {
	case OpULt:
		return x < y
	case OpULe:
		return x <= y
	case OpSLt:
		return sext(x, w) < sext(y, w)
	case OpSLe:
		return sext(x, w) <= sext(y, w)
	}
	panic("evalCmp")
}

// Bin builds an arithmetic/bitwise binary term.
func (c *Ctx) Bin(op Op, a, b *Term) *Term {
	if a.W != b.W {
		panic(fmt.Sprintf("smt.Bin %v: width mismatch %d vs %d", opNames[op], a.W, b.W))
	}
	if a.Op == OpBVConst && b.Op == OpBVConst {
		return c.BV(a.W, evalBin(op, a.W, a.K, b.K))
	}
	switch op {
	case OpAdd, OpBOr, OpBXor:
		if a.Op == OpBVConst && a.K == 0 {
			return b
		}
		if b.Op == OpBVConst && b.K == 0 {
			return a
		}
	case OpSub, OpShl, OpLShr, OpAShr:
		if b.Op == OpBVConst && b.K == 0 {
			return a
		}
	case OpBAnd:
		if (a.Op == OpBVConst && a.K == 0) || (b.Op == OpBVConst && b.K == 0) {
			return c.BV(a.W, 0)
		}
		if a.Op == OpBVConst && a.K == mask(a.W) {
			return b
		}
		if b.Op == OpBVConst && b.K == mask(a.W) {
			return a
		}
	case OpMul:
		if a.Op == OpBVConst && a.K == 1 {
			return b
		}
		if b.Op == OpBVConst && b.K == 1 {
			return a
		}
		if (a.Op == OpBVConst && a.K == 0) || (b.Op == OpBVConst && b.K == 0) {
			return c.BV(a.W, 0)
		}
	}
	return c.mk(op, a.W, a, b, nil, 0, "")
}

// Cmp builds an ordering comparison.
func (c *Ctx) Cmp(op Op, a, b *Term) *Term {
	if a.W != b.W {
		panic("smt.Cmp: width mismatch")
	}
	if a.Op == OpBVConst && b.Op == OpBVConst {
		return c.Bool(evalCmp(op, a.W, a.K, b.K))
	}
	if a == b {
		return c.Bool(op == OpULe || op == OpSLe)
	}
	// narrow comparisons of zero-extended values against constants
	if a.Op == OpZeroExt && b.Op == OpBVConst {
		if n, ok := c.narrowCmp(op, a, b, false); ok {
			return n
		}
	}
	if b.Op == OpZeroExt && a.Op == OpBVConst {
		if n, ok := c.narrowCmp(op, b, a, true); ok {
			return n
		}
	}
	return c.mk(op, 0, a, b, nil, 0, "")
}

// narrowCmp rewrites cmp(zext(x), k) (or cmp(k, zext(x)) when swapped) on x's width.
func (c *Ctx) narrowCmp(op Op, z, k *Term, swapped bool) (*Term, bool) {
	x := z.A
	xw := x.W
	kv := k.K
	signed := op == OpSLt || op == OpSLe
	if signed {
		if z.W == xw {
			return nil, false
		}
		// zext(x) is non-negative; k may be negative
		sk := sext(kv, z.W)
		if sk < 0 {
			// x' >= 0 > k
			if !swapped { // x' < k  or x' <= k : false
				return c.F, true
			}
			return c.T, true // k < x'
		}
		// both non-negative: same as unsigned
		if op == OpSLt {
			op = OpULt
		} else {
			op = OpULe
		}
	}
	if kv > mask(xw) {
		// constant above every value of x
		if !swapped { // x' < k / x' <= k
			return c.T, true
		}
		return c.F, true // k < x' / k <= x'
	}
	kk := c.BV(xw, kv)
	if !swapped {
		return c.Cmp(op, x, kk), true
	}
	return c.Cmp(op, kk, x), true
}

func (c *Ctx) Un(op Op, a *Term) *Term {
	if a.Op == OpBVConst {
		switch op {
		case OpBNot:
			return c.BV(a.W, ^a.K)
		case OpNeg:
			return c.BV(a.W, -a.K)
		}
	}
	return c.mk(op, a.W, a, nil, nil, 0, "")
}

func (c *Ctx) Extract(a *Term, hi, lo int) *Term {
	w := hi - lo + 1
	if lo == 0 && w == a.W {
		return a
	}
	if a.Op == OpBVConst {
		return c.BV(w, a.K>>uint(lo))
	}
	if (a.Op == OpZeroExt || a.Op == OpSignExt) && lo == 0 {
		if w == a.A.W {
			return a.A
		}
		if w < a.A.W {
			return c.Extract(a.A, hi, 0)
		}
		if a.Op == OpZeroExt {
			return c.ZeroExt(a.A, w)
		}
		return c.SignExt(a.A, w)
	}
	return c.mk(OpExtract, w, a, nil, nil, uint64(hi)<<8|uint64(lo), "")
}

func (c *Ctx) ZeroExt(a *Term, w int) *Term {
	if w == a.W {
		return a
	}
	if w < a.W {
		return c.Extract(a, w-1, 0)
	}
	if a.Op == OpBVConst {
		return c.BV(w, a.K)
	}
	if a.Op == OpZeroExt {
		return c.ZeroExt(a.A, w)
	}
	return c.mk(OpZeroExt, w, a, nil, nil, 0, "")
}

func (c *Ctx) SignExt(a *Term, w int) *Term {
	if w == a.W {
		return a
	}
	if w < a.W {
		return c.Extract(a, w-1, 0)
	}
	if a.Op == OpBVConst {
		return c.BV(w, uint64(sext(a.K, a.W)))
	}
	if a.Op == OpZeroExt {
		return c.ZeroExt(a.A, w)
	}
	return c.mk(OpSignExt, w, a, nil, nil, 0, "")
}

func (c *Ctx) Concat(hi, lo *Term) *Term {
	if hi.Op == OpBVConst && lo.Op == OpBVConst {
		return c.BV(hi.W+lo.W, hi.K<<uint(lo.W)|lo.K)
	}
	return c.mk(OpConcat, hi.W+lo.W, hi, lo, nil, 0, "")
}

// NewModel installs a model (missing variables read as 0).
func (c *Ctx) SetModel(m map[string]uint64) {
	c.Model = m
	for i, v := range c.Vars {
		c.vals[i] = m[v.Name]
	}
	c.evGen++
}

// SetVar overrides one variable of the current model (also in the model map).
func (c *Ctx) SetVar(v *Term, x uint64) {
	c.vals[v.Idx] = x
	c.evGen++
}

// VarVal is the current model's value of v.
func (c *Ctx) VarVal(v *Term) uint64 { return c.vals[v.Idx] }

// ModelMap snapshots the current model as a name->value map, with v set to x when v != nil.
func (c *Ctx) ModelMap(v *Term, x uint64) map[string]uint64 {
	m := make(map[string]uint64, len(c.Vars))
	for i, t := range c.Vars {
		m[t.Name] = c.vals[i]
	}
	if v != nil {
		m[v.Name] = x
	}
	return m
}

// VarsOf returns (single variable, count) where count is 0, 1 or 2 (= two or more).
func (t *Term) VarsOf() (*Term, int) {
	if t.varOK {
		return t.VarV, int(t.VarN)
	}
	var v *Term
	n := 0
	switch t.Op {
	case OpBVVar, OpBoolVar:
		v, n = t, 1
	default:
		for _, x := range [3]*Term{t.A, t.B, t.C} {
			if x == nil {
				continue
			}
			xv, xn := x.VarsOf()
			switch {
			case xn == 0:
			case n == 0:
				v, n = xv, xn
			case xn >= 2 || n >= 2 || xv != v:
				v, n = nil, 2
			}
		}
	}
	t.VarV, t.VarN, t.varOK = v, int8(n), true
	return v, n
}

// Eval evaluates t under the current model. Booleans are 0/1.
func (c *Ctx) Eval(t *Term) uint64 {
	if t.evGen == c.evGen {
		return t.ev
	}
	var r uint64
	b2u := func(b bool) uint64 {
		if b {
			return 1
		}
		return 0
	}
	switch t.Op {
	case OpBVConst:
		r = t.K
	case OpBVVar:
		r = c.vals[t.Idx] & mask(t.W)
	case OpTrue:
		r = 1
	case OpFalse:
		r = 0
	case OpBoolVar:
		r = c.vals[t.Idx] & 1
	case OpNot:
		r = 1 - c.Eval(t.A)
	case OpAnd:
		r = c.Eval(t.A) & c.Eval(t.B)
	case OpOr:
		r = c.Eval(t.A) | c.Eval(t.B)
	case OpEq:
		r = b2u(c.Eval(t.A) == c.Eval(t.B))
	case OpIte:
		if c.Eval(t.A) != 0 {
			r = c.Eval(t.B)
		} else {
			r = c.Eval(t.C)
		}
	case OpAdd, OpSub, OpMul, OpUDiv, OpURem, OpSDiv, OpSRem, OpBAnd, OpBOr, OpBXor, OpShl, OpLShr, OpAShr:
		r = evalBin(t.Op, t.W, c.Eval(t.A), c.Eval(t.B))
	case OpBNot:
		r = ^c.Eval(t.A) & mask(t.W)
	case OpNeg:
		r = -c.Eval(t.A) & mask(t.W)
	case OpULt, OpULe, OpSLt, OpSLe:
		r = b2u(evalCmp(t.Op, t.A.W, c.Eval(t.A), c.Eval(t.B)))
	case OpExtract:
		lo := uint(t.K & 0xff)
		r = (c.Eval(t.A) >> lo) & mask(t.W)
	case OpZeroExt:
		r = c.Eval(t.A)
	case OpSignExt:
		r = uint64(sext(c.Eval(t.A), t.A.W)) & mask(t.W)
	case OpConcat:
		r = (c.Eval(t.A)<<uint(t.B.W) | c.Eval(t.B)) & mask(t.W)
	default:
		panic("smt.Eval: bad op")
	}
	t.ev, t.evGen = r, c.evGen
	return r
}

var _ = bits.Len

// Touch invalidates memoised evaluations after the model map was edited in place.
func (c *Ctx) Touch() { c.evGen++ }
