// Package vf is the harness API. Under the symbolic engine (gosym) every
// function of this package is intercepted by name; the bodies below are the
// NATIVE behaviour, used when a solver model is replayed against the real,
// natively compiled code: inputs are read from a recorded vector.
package vf

import (
	"encoding/json"
	"fmt"
	"os"

	_ "verif/engine/vfmodel" // models interpreted by the engine in place of reflection-based std functions
)

type Failure struct {
	ID string
}

var (
	vector   []uint64
	pos      int
	Failures []string
	Reached  []string
	Obs      []string
	// AssumeFailed is set when a replayed vector does not satisfy an assumption.
	AssumeFailed bool
	known        = map[string]bool{}
	params       = map[string]int{}
)

type assumeFailed struct{}

// LoadVector installs the input vector for a native replay.
func LoadVector(v []uint64, knownIDs []string, p map[string]int) {
	vector, pos = v, 0
	Failures, Reached, Obs, AssumeFailed = nil, nil, nil, false
	known = map[string]bool{}
	for _, k := range knownIDs {
		known[k] = true
	}
	params = p
	if params == nil {
		params = map[string]int{}
	}
}

// LoadVectorFile reads {"vector":[...],"known":[...],"params":{...}}.
func LoadVectorFile(path string) error {
	b, err := os.ReadFile(path)
	if err != nil {
		return err
	}
	var f struct {
		Vector []uint64       `json:"vector"`
		Known  []string       `json:"known"`
		Params map[string]int `json:"params"`
	}
	if err := json.Unmarshal(b, &f); err != nil {
		return err
	}
	LoadVector(f.Vector, f.Known, f.Params)
	return nil
}

func next() uint64 {
	if pos < len(vector) {
		v := vector[pos]
		pos++
		return v
	}
	pos++
	return 0
}

// Run executes a harness natively, absorbing the unwinding caused by a failed assumption.
func Run(h func()) (panicked any) {
	defer func() {
		if r := recover(); r != nil {
			if _, ok := r.(assumeFailed); ok {
				AssumeFailed = true
				return
			}
			panicked = r
		}
	}()
	h()
	return nil
}

func Byte() byte { return byte(next()) }
func Bool() bool { return next()&1 == 1 }

// Int returns an integer in [lo, hi].
func Int(lo, hi int) int {
	v := int(int64(next()))
	if v < lo || v > hi {
		if pos > len(vector) {
			return lo
		}
		panic(assumeFailed{})
	}
	return v
}

// Choice returns an integer in [0, n).
func Choice(n int) int { return Int(0, n-1) }

func Bytes(n int) []byte {
	b := make([]byte, n)
	for i := range b {
		b[i] = Byte()
	}
	return b
}

func Str(n int) string { return string(Bytes(n)) }

func Assume(c bool) {
	if !c {
		panic(assumeFailed{})
	}
}

func Assert(c bool, id string) {
	if !c {
		Failures = append(Failures, id)
	}
}

// Cover marks a condition whose satisfiability is reported (known findings).
func Cover(c bool, id string) {
	if c {
		Obs = append(Obs, "cover:"+id)
	}
}

func Reach(id string) { Reached = append(Reached, id) }

// Observe records a value for engine-vs-native cross validation.
// Supported: bool, integers, string, []byte, []string, []int.
func Observe(label string, v any) {
	Obs = append(Obs, label+"="+render(v))
}

func render(v any) string {
	switch v := v.(type) {
	case string:
		return fmt.Sprintf("%q", v)
	case []byte:
		return fmt.Sprintf("%q", string(v))
	case []string:
		s := "["
		for i, x := range v {
			if i > 0 {
				s += " "
			}
			s += fmt.Sprintf("%q", x)
		}
		return s + "]"
	case nil:
		return "<nil>"
	}
	return fmt.Sprint(v)
}

// Known reports whether a known-finding id is listed in known_findings.txt.
func Known(id string) bool { return known[id] }

// Param returns a numeric bound from the check's configuration.
func Param(name string, def int) int {
	if v, ok := params[name]; ok {
		return v
	}
	return def
}

// Symbolic reports whether the harness runs under the symbolic engine.
func Symbolic() bool { return false }

// Concretize forces a symbolic integer to a concrete value (forking over all feasible values).
func Concretize(x int) int { return x }

// ConcretizeStr forces every byte of s to a concrete value.
func ConcretizeStr(s string) string { return s }

// IsConcrete reports whether v holds no symbolic scalar at top level.
func IsConcrete(v any) bool { return true }

// AssertKnown is Assert with a known-finding escape: when the finding kfID is
// listed, inputs matching sig are reported as KNOWN-FINDING instead of a violation;
// every other violating input is still a violation.
func AssertKnown(c bool, id string, kfID string, sig bool) {
	if Known(kfID) {
		Cover(!c && sig, "KNOWN-FINDING:"+kfID)
		Assert(c || sig, id)
		return
	}
	Assert(c, id)
}
