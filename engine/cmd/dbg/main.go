package main

import (
	"fmt"

	"github.com/hashicorp/hcl/v2"
	"github.com/hashicorp/hcl/v2/ext/dynblock"
	"github.com/hashicorp/hcl/v2/hcldec"
	"github.com/hashicorp/hcl/v2/hclsyntax"
	"github.com/zclconf/go-cty/cty"
)

func main() {
	ctx := &hcl.EvalContext{Variables: map[string]cty.Value{"s": cty.ListVal([]cty.Value{cty.StringVal("a"), cty.StringVal("b")}).Mark("m")}}
	src := "dynamic \"blk\" {\n  for_each = s\n  content {\n    dynamic \"inner\" {\n      for_each = [blk.value]\n      content {\n        z = inner.value\n      }\n    }\n  }\n}\n"
	spec := hcldec.ObjectSpec{"blk": &hcldec.BlockListSpec{TypeName: "blk", Nested: hcldec.ObjectSpec{"inner": &hcldec.BlockListSpec{TypeName: "inner", Nested: hcldec.ObjectSpec{"z": &hcldec.AttrSpec{Name: "z", Type: cty.String}}}}}}
	f, _ := hclsyntax.ParseConfig([]byte(src), "e.hcl", hcl.InitialPos)
	v, d := hcldec.Decode(dynblock.Expand(f.Body, ctx), spec, ctx)
	fmt.Printf("%#v\n%v\n", v, d)
}
