// replay runs harnesses NATIVELY (real compiled code of /repo) on recorded
// input vectors: counterexample confirmation and engine-vs-native cross validation.
//
//	replay -batch file.json   (JSON list of {entry, vector, known, params}) -> JSON list of outcomes
package main

import (
	"encoding/json"
	"flag"
	"fmt"
	"os"
	"runtime/debug"

	"verif/engine/h/registry"
	"verif/engine/vf"
)

type job struct {
	Entry  string         `json:"entry"`
	Vector []uint64       `json:"vector"`
	Known  []string       `json:"known"`
	Params map[string]int `json:"params"`
}

type outcome struct {
	Entry        string   `json:"entry"`
	Failures     []string `json:"failures"`
	Reached      []string `json:"reached"`
	Obs          []string `json:"obs"`
	Panic        string   `json:"panic,omitempty"`
	Stack        string   `json:"stack,omitempty"`
	AssumeFailed bool     `json:"assume_failed"`
	Unknown      bool     `json:"unknown_entry,omitempty"`
}

func runOne(j job) (o outcome) {
	o.Entry = j.Entry
	h, ok := registry.Entries[j.Entry]
	if !ok {
		o.Unknown = true
		return
	}
	vf.LoadVector(j.Vector, j.Known, j.Params)
	func() {
		defer func() {
			if r := recover(); r != nil {
				o.Panic = fmt.Sprint(r)
				o.Stack = string(debug.Stack())
			}
		}()
		if p := vf.Run(h); p != nil {
			panic(p)
		}
	}()
	o.Failures, o.Reached, o.Obs, o.AssumeFailed = vf.Failures, vf.Reached, vf.Obs, vf.AssumeFailed
	return
}

func main() {
	batch := flag.String("batch", "", "JSON file with a list of jobs")
	flag.Parse()
	b, err := os.ReadFile(*batch)
	if err != nil {
		fmt.Fprintln(os.Stderr, err)
		os.Exit(2)
	}
	var jobs []job
	if err := json.Unmarshal(b, &jobs); err != nil {
		fmt.Fprintln(os.Stderr, err)
		os.Exit(2)
	}
	outs := make([]outcome, 0, len(jobs))
	for _, j := range jobs {
		outs = append(outs, runOne(j))
	}
	enc := json.NewEncoder(os.Stdout)
	enc.SetIndent("", " ")
	enc.Encode(outs)
}
