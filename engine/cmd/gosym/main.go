// gosym: bounded symbolic execution of Go harnesses over the real code of /repo.
//
//	gosym -pkg verif/engine/h/c13 -entry H_Bytes [-workers 16] [-param n=4] [-known id,id] -out result.json
//
// The master process distributes work items (decision prefixes with a solver
// model) to worker processes; each worker owns one interpreter and one z3.
package main

import (
	"bufio"
	"encoding/json"
	"flag"
	"fmt"
	"go/ast"
	"go/types"
	"os"
	"os/exec"
	"runtime"
	"runtime/debug"
	"runtime/pprof"
	"sort"
	"strconv"
	"strings"
	"sync/atomic"
	"time"

	"golang.org/x/tools/go/packages"
	"golang.org/x/tools/go/ssa"
	"golang.org/x/tools/go/ssa/ssautil"

	"verif/engine/interp"
	"verif/engine/smt"
)

type multiFlag []string

func (m *multiFlag) String() string     { return strings.Join(*m, ",") }
func (m *multiFlag) Set(s string) error { *m = append(*m, s); return nil }

var (
	flagPkg      = flag.String("pkg", "", "harness package path")
	flagEntry    = flag.String("entry", "", "harness function name")
	flagWorkers  = flag.Int("workers", runtime.NumCPU(), "worker processes")
	flagWorker   = flag.Bool("worker", false, "run as worker (internal)")
	flagOut      = flag.String("out", "", "result JSON file (default stdout)")
	flagKnown    = flag.String("known", "", "comma-separated active known-finding ids")
	flagMaxSteps = flag.Int("maxsteps", 0, "instruction budget per path")
	flagMaxDec   = flag.Int("maxdec", 0, "decision budget per path")
	flagMaxPaths = flag.Int("maxpaths", 0, "stop after this many paths (0 = exhaustive); stopping early makes the run inconclusive")
	flagTimeout  = flag.Duration("timeout", 0, "wall-clock limit (0 = none); hitting it makes the run inconclusive")
	flagSolver   = flag.String("solver", "z3-new -in", "solver command")
	flagSamples  = flag.Int("samples", 24, "paths whose inputs/observations are kept as samples")
	flagBatch    = flag.Int("batch", 24, "paths a worker explores before returning open items")
	flagDir      = flag.String("dir", "", "module directory to load from (default: cwd)")
	flagQLog     = flag.String("qlog", "", "write worker 0's solver queries to this file")
	flagNoFast   = flag.Bool("nofast", false, "send every feasibility question to the solver (no finite-domain shortcut)")
	flagTrace    = flag.Bool("trace", false, "interpreter tracing (single worker)")
	flagParams   multiFlag
)

type workerReq struct {
	Item *interp.Item `json:"item,omitempty"`
	Quit bool         `json:"quit,omitempty"`
}

type pathLite struct {
	Outcome    string             `json:"o"`
	Msg        string             `json:"msg,omitempty"`
	Violations []interp.Violation `json:"viol,omitempty"`
	Reached    []string           `json:"reached,omitempty"`
	Covers     []string           `json:"covers,omitempty"`
	Obs        []string           `json:"obs,omitempty"`
	Vector     []uint64           `json:"vec,omitempty"`
	Inputs     string             `json:"in,omitempty"`
	Decisions  int                `json:"d"`
	Steps      int                `json:"s"`
	Unknown    int                `json:"u,omitempty"`
	Fast       int                `json:"f,omitempty"`
	Sampled    bool               `json:"smp,omitempty"`
}

type workerResp struct {
	Paths []pathLite    `json:"paths,omitempty"`
	Open  []interp.Item `json:"open,omitempty"`
	Ready bool          `json:"ready,omitempty"`
	Error string        `json:"error,omitempty"`
	Final *workerFinal  `json:"final,omitempty"`
}

type workerFinal struct {
	Funcs                        []string `json:"funcs"`
	Queries, Sat, Unsat, Unknown int
	SolverS                      float64
	SolverErrors                 []string
}

func loadProgram() (*ssa.Program, *ssa.Package, map[string]string, types.Sizes, error) {
	cfg := &packages.Config{
		Mode: packages.NeedName | packages.NeedFiles | packages.NeedCompiledGoFiles | packages.NeedImports |
			packages.NeedDeps | packages.NeedTypes | packages.NeedTypesSizes | packages.NeedSyntax | packages.NeedTypesInfo | packages.NeedModule,
		Dir:        *flagDir,
		BuildFlags: []string{"-tags=math_big_pure_go,purego,verif"},
		Env:        os.Environ(),
	}
	t0 := time.Now()
	defer func() {
		if os.Getenv("GOSYM_TIMING") != "" {
			fmt.Fprintf(os.Stderr, "load total %v\n", time.Since(t0))
		}
	}()
	pkgs, err := packages.Load(cfg, *flagPkg)
	if os.Getenv("GOSYM_TIMING") != "" {
		fmt.Fprintf(os.Stderr, "packages.Load %v\n", time.Since(t0))
	}
	if err != nil {
		return nil, nil, nil, nil, err
	}
	if packages.PrintErrors(pkgs) > 0 {
		return nil, nil, nil, nil, fmt.Errorf("packages contain errors")
	}
	if len(pkgs) != 1 {
		return nil, nil, nil, nil, fmt.Errorf("expected one package for %q, got %d", *flagPkg, len(pkgs))
	}
	linknames := map[string]string{}
	packages.Visit(pkgs, nil, func(p *packages.Package) {
		if !strings.HasPrefix(p.PkgPath, "verif/engine/") {
			return
		}
		for _, f := range p.Syntax {
			for _, cg := range f.Comments {
				for _, c := range cg.List {
					if strings.HasPrefix(c.Text, "//go:linkname ") {
						parts := strings.Fields(c.Text)
						if len(parts) == 3 {
							linknames[p.PkgPath+"."+parts[1]] = parts[2]
						}
					}
				}
			}
			_ = ast.Inspect
		}
	})
	prog, spkgs := ssautil.AllPackages(pkgs, ssa.InstantiateGenerics)
	prog.Build()
	return prog, spkgs[0], linknames, pkgs[0].TypesSizes, nil
}

func parseParams() map[string]int {
	m := map[string]int{}
	for _, p := range flagParams {
		for _, kv := range strings.Split(p, ",") {
			if kv == "" {
				continue
			}
			a := strings.SplitN(kv, "=", 2)
			if len(a) == 2 {
				n, _ := strconv.Atoi(a[1])
				m[a[0]] = n
			}
		}
	}
	return m
}

func knownSet() map[string]bool {
	m := map[string]bool{}
	for _, k := range strings.Split(*flagKnown, ",") {
		if k != "" {
			m[k] = true
		}
	}
	return m
}

func worker() {
	if f := os.Getenv("GOSYM_CPUPROFILE"); f != "" {
		fh, _ := os.Create(f)
		pprof.StartCPUProfile(fh)
		defer pprof.StopCPUProfile()
	}
	out := bufio.NewWriterSize(os.Stdout, 1<<20)
	enc := json.NewEncoder(out)
	send := func(r workerResp) {
		enc.Encode(r)
		out.Flush()
	}
	prog, mainpkg, linknames, sizes, err := loadProgram()
	if err != nil {
		send(workerResp{Error: err.Error()})
		os.Exit(3)
	}
	_ = prog
	var mode interp.Mode
	if *flagTrace {
		mode = interp.EnableTracing
	}
	m, err := interp.NewMachine(mainpkg, sizes, linknames, mode)
	if err != nil {
		send(workerResp{Error: err.Error()})
		os.Exit(3)
	}
	fn := mainpkg.Func(*flagEntry)
	if fn == nil {
		send(workerResp{Error: "no such harness function: " + *flagEntry})
		os.Exit(3)
	}
	solver, err := smt.NewSolver(strings.Fields(*flagSolver)...)
	if err != nil {
		send(workerResp{Error: err.Error()})
		os.Exit(3)
	}
	if *flagQLog != "" {
		f, _ := os.Create(*flagQLog)
		solver.Log = f
		defer f.Close()
	}
	m.Solver = solver
	cfg := &interp.Config{MaxSteps: *flagMaxSteps, MaxDecisions: *flagMaxDec, Known: knownSet(), Params: parseParams(), NoFast: *flagNoFast}
	if os.Getenv("GOGC") == "" {
		// Fresh memory is expensive in this sandbox: keep the heap small and
		// stable instead of letting it balloon between collections.
		runtime.GC()
		var ms runtime.MemStats
		runtime.ReadMemStats(&ms)
		debug.SetGCPercent(-1)
		debug.SetMemoryLimit(int64(ms.HeapAlloc)*3/2 + 300<<20)
	}
	send(workerResp{Ready: true})
	var pathStart atomic.Int64
	go func() {
		for {
			time.Sleep(10 * time.Second)
			if t := pathStart.Load(); t != 0 && time.Now().Unix()-t > 20 {
				fmt.Fprintf(os.Stderr, "[worker %d] path running for %ds: %s\n", os.Getpid(), time.Now().Unix()-t, interp.DebugState())
			}
		}
	}()
	funcs := map[string]bool{}
	in := bufio.NewReaderSize(os.Stdin, 1<<20)
	dec := json.NewDecoder(in)
	for {
		var req workerReq
		if err := dec.Decode(&req); err != nil || req.Quit {
			break
		}
		stack := []interp.Item{*req.Item}
		var resp workerResp
		for n := 0; len(stack) > 0 && n < *flagBatch; n++ {
			it := stack[len(stack)-1]
			stack = stack[:len(stack)-1]
			pathStart.Store(time.Now().Unix())
			res := m.RunPath(fn, it, cfg)
			pathStart.Store(0)
			for _, f := range res.Funcs {
				funcs[f] = true
			}
			pl := pathLite{Outcome: res.Outcome, Msg: res.Msg, Violations: res.Violations, Reached: res.Reached,
				Covers: res.Covers, Decisions: res.Decisions, Steps: res.Steps, Unknown: res.Unknown, Fast: res.Fast}
			if n < 2 {
				pl.Obs, pl.Vector, pl.Inputs, pl.Sampled = res.Obs, res.Vector, res.Inputs, true
			}
			resp.Paths = append(resp.Paths, pl)
			stack = append(stack, res.Children...)
		}
		resp.Open = stack
		send(resp)
	}
	fin := &workerFinal{Queries: solver.Queries, Sat: solver.Sat, Unsat: solver.Unsat, Unknown: solver.Unknown,
		SolverS: solver.Time.Seconds(), SolverErrors: solver.Errors}
	if len(fin.SolverErrors) > 5 {
		fin.SolverErrors = fin.SolverErrors[:5]
	}
	for f := range funcs {
		fin.Funcs = append(fin.Funcs, f)
	}
	sort.Strings(fin.Funcs)
	send(workerResp{Final: fin})
	solver.Close()
}

type sample struct {
	Inputs string   `json:"inputs"`
	Vector []uint64 `json:"vector"`
	Obs    []string `json:"obs,omitempty"`
	Out    string   `json:"outcome"`
}

type result struct {
	Pkg, Entry   string
	Params       map[string]int
	Known        []string
	Paths        int
	Outcomes     map[string]int
	Decisions    int
	Steps        int
	MaxDecisions int
	Violations   []interp.Violation
	ViolationCnt map[string]int
	Reached      map[string]int
	Covers       map[string]int
	Samples      []sample
	Funcs        []string
	Queries      int
	Sat          int
	Unsat        int
	Unknown      int
	FastDecided  int
	SolverS      float64
	SolverErrors []string
	WallS        float64
	Incomplete   string // non-empty when the exploration did not finish
	Messages     map[string]int
	Workers      int
}

type wproc struct {
	cmd  *exec.Cmd
	enc  *json.Encoder
	w    *bufio.Writer
	dec  *json.Decoder
	busy bool
	id   int
}

func master() int {
	start := time.Now()
	res := &result{Pkg: *flagPkg, Entry: *flagEntry, Params: parseParams(), Outcomes: map[string]int{},
		ViolationCnt: map[string]int{}, Reached: map[string]int{}, Covers: map[string]int{}, Messages: map[string]int{}}
	for k := range knownSet() {
		res.Known = append(res.Known, k)
	}
	sort.Strings(res.Known)
	nw := *flagWorkers
	if nw < 1 {
		nw = 1
	}
	res.Workers = nw
	type msg struct {
		w    *wproc
		resp workerResp
		err  error
	}
	ch := make(chan msg, nw*4)
	var procs []*wproc
	exe, _ := os.Executable()
	for i := 0; i < nw; i++ {
		args := []string{"-worker"}
		flag.Visit(func(f *flag.Flag) {
			switch f.Name {
			case "worker", "workers", "out", "qlog":
				return
			}
			if f.Name == "param" {
				return
			}
			args = append(args, "-"+f.Name+"="+f.Value.String())
		})
		for _, p := range flagParams {
			args = append(args, "-param="+p)
		}
		if i == 0 && *flagQLog != "" {
			args = append(args, "-qlog="+*flagQLog)
		}
		cmd := exec.Command(exe, args...)
		cmd.Stderr = os.Stderr
		cmd.Env = append(os.Environ(), "GOMAXPROCS=2")
		stdin, _ := cmd.StdinPipe()
		stdout, _ := cmd.StdoutPipe()
		if err := cmd.Start(); err != nil {
			fmt.Fprintln(os.Stderr, "cannot start worker:", err)
			return 2
		}
		w := bufio.NewWriterSize(stdin, 1<<20)
		p := &wproc{cmd: cmd, enc: json.NewEncoder(w), w: w, dec: json.NewDecoder(bufio.NewReaderSize(stdout, 1<<20)), id: i}
		procs = append(procs, p)
		go func(p *wproc) {
			for {
				var r workerResp
				if err := p.dec.Decode(&r); err != nil {
					ch <- msg{p, r, err}
					return
				}
				ch <- msg{p, r, nil}
				if r.Final != nil {
					return
				}
			}
		}(p)
	}
	queue := []interp.Item{{K: 0, Model: map[string]uint64{}}}
	ready := 0
	var idle []*wproc
	busy := 0
	dispatch := func() {
		for len(queue) > 0 && len(idle) > 0 {
			it := queue[len(queue)-1]
			queue = queue[:len(queue)-1]
			p := idle[len(idle)-1]
			idle = idle[:len(idle)-1]
			p.enc.Encode(workerReq{Item: &it})
			p.w.Flush()
			busy++
		}
	}
	failed := ""
	var deadline <-chan time.Time
	if *flagTimeout > 0 {
		deadline = time.After(*flagTimeout)
	}
	lastReport := time.Now()
loop:
	for {
		if ready > 0 && busy == 0 && len(queue) == 0 {
			break
		}
		if failed != "" && busy == 0 {
			break
		}
		select {
		case <-deadline:
			res.Incomplete = "timeout"
			break loop
		case m := <-ch:
			if m.err != nil {
				failed = fmt.Sprintf("worker %d died: %v", m.w.id, m.err)
				res.Incomplete = failed
				break loop
			}
			r := m.resp
			switch {
			case r.Error != "":
				failed = "worker error: " + r.Error
				res.Incomplete = failed
				break loop
			case r.Ready:
				ready++
				idle = append(idle, m.w)
			default:
				busy--
				idle = append(idle, m.w)
				for _, p := range r.Paths {
					res.Paths++
					res.Outcomes[p.Outcome]++
					res.Decisions += p.Decisions
					res.Steps += p.Steps
					res.Unknown += p.Unknown
					res.FastDecided += p.Fast
					if p.Decisions > res.MaxDecisions {
						res.MaxDecisions = p.Decisions
					}
					if p.Outcome != "ok" && p.Outcome != "infeasible" {
						key := p.Outcome + ": " + firstLine(p.Msg)
						res.Messages[key]++
					}
					for _, v := range p.Violations {
						res.ViolationCnt[v.ID]++
						if res.ViolationCnt[v.ID] <= 3 {
							res.Violations = append(res.Violations, v)
						}
					}
					for _, id := range p.Reached {
						res.Reached[id]++
					}
					for _, id := range p.Covers {
						res.Covers[id]++
					}
					if p.Sampled && len(res.Samples) < *flagSamples && p.Outcome != "infeasible" {
						res.Samples = append(res.Samples, sample{Inputs: p.Inputs, Vector: p.Vector, Obs: p.Obs, Out: p.Outcome})
					}
				}
				queue = append(queue, r.Open...)
				if *flagMaxPaths > 0 && res.Paths >= *flagMaxPaths {
					res.Incomplete = fmt.Sprintf("stopped after %d paths (maxpaths)", res.Paths)
					break loop
				}
			}
			if failed == "" {
				dispatch()
			}
			if time.Since(lastReport) > 10*time.Second {
				lastReport = time.Now()
				fmt.Fprintf(os.Stderr, "[gosym %s.%s] %d paths, queue %d, busy %d, %.0fs\n", *flagPkg, *flagEntry, res.Paths, len(queue), busy, time.Since(start).Seconds())
			}
		}
	}
	// shut down workers, collecting their final statistics
	funcs := map[string]bool{}
	if res.Incomplete == "" || strings.HasPrefix(res.Incomplete, "stopped") {
		for _, p := range procs {
			p.enc.Encode(workerReq{Quit: true})
			p.w.Flush()
		}
		pending := len(procs)
		timeout := time.After(60 * time.Second)
		for pending > 0 {
			select {
			case m := <-ch:
				if m.err != nil {
					pending--
					continue
				}
				if f := m.resp.Final; f != nil {
					pending--
					for _, fn := range f.Funcs {
						funcs[fn] = true
					}
					res.Queries += f.Queries
					res.Sat += f.Sat
					res.Unsat += f.Unsat
					res.SolverS += f.SolverS
					res.SolverErrors = append(res.SolverErrors, f.SolverErrors...)
				}
			case <-timeout:
				pending = 0
			}
		}
	}
	for _, p := range procs {
		p.w.Flush()
		done := make(chan struct{})
		go func(p *wproc) { p.cmd.Wait(); close(done) }(p)
		select {
		case <-done:
		case <-time.After(3 * time.Second):
			p.cmd.Process.Kill()
			<-done
		}
	}
	for f := range funcs {
		res.Funcs = append(res.Funcs, f)
	}
	sort.Strings(res.Funcs)
	res.WallS = time.Since(start).Seconds()
	b, _ := json.MarshalIndent(res, "", " ")
	if *flagOut != "" {
		os.WriteFile(*flagOut, b, 0o644)
	} else {
		os.Stdout.Write(b)
		fmt.Println()
	}
	fmt.Fprintf(os.Stderr, "[gosym %s.%s] done: %d paths %v, %d violations, %.1fs %s\n", *flagPkg, *flagEntry, res.Paths, res.Outcomes, len(res.Violations), res.WallS, res.Incomplete)
	if res.Incomplete != "" {
		return 2
	}
	return 0
}

func firstLine(s string) string {
	if i := strings.IndexByte(s, '\n'); i >= 0 {
		s = s[:i]
	}
	if len(s) > 200 {
		s = s[:200]
	}
	return s
}

func main() {
	flag.Var(&flagParams, "param", "name=value[,name=value] harness parameters")
	flag.Parse()
	if *flagWorker {
		worker()
		return
	}
	os.Exit(master())
}
