// Copyright 2013 The Go Authors. All rights reserved.
// Use of this source code is governed by a BSD-style
// license that can be found in the LICENSE file.

package interp

// Emulated functions that we cannot interpret because they are
// external or because they use "unsafe" or "reflect" operations.

import (
	"maps"
	"math"
	"os"
	"runtime"
	"unicode/utf8"
)

type externalFn func(fr *frame, args []value) value

// TODO(adonovan): fix: reflect.Value abstracts an lvalue or an
// rvalue; Set() causes mutations that can be observed via aliases.
// We have not captured that correctly here.

// Key strings are from Function.String().
var externals = make(map[string]externalFn)

func init() {
	// That little dot ۰ is an Arabic zero numeral (U+06F0), categories [Nd].
	maps.Copy(externals, map[string]externalFn{
		"math.Abs":                        ext۰math۰Abs,
		"math.Copysign":                   ext۰math۰Copysign,
		"math.Exp":                        ext۰math۰Exp,
		"math.Float32bits":                ext۰math۰Float32bits,
		"math.Float32frombits":            ext۰math۰Float32frombits,
		"math.Float64bits":                ext۰math۰Float64bits,
		"math.Float64frombits":            ext۰math۰Float64frombits,
		"math.Inf":                        ext۰math۰Inf,
		"math.IsNaN":                      ext۰math۰IsNaN,
		"math.Ldexp":                      ext۰math۰Ldexp,
		"math.Log":                        ext۰math۰Log,
		"math.Min":                        ext۰math۰Min,
		"math.NaN":                        ext۰math۰NaN,
		"math.Sqrt":                       ext۰math۰Sqrt,
		"os.Exit":                         ext۰os۰Exit,
		"os.Getenv":                       ext۰os۰Getenv,
		"runtime.Breakpoint":              ext۰runtime۰Breakpoint,
		"runtime.GC":                      ext۰runtime۰GC,
		"runtime.GOMAXPROCS":              ext۰runtime۰GOMAXPROCS,
		"runtime.GOROOT":                  ext۰runtime۰GOROOT,
		"runtime.Goexit":                  ext۰runtime۰Goexit,
		"runtime.Gosched":                 ext۰runtime۰Gosched,
		"runtime.NumCPU":                  ext۰runtime۰NumCPU,
		"unicode/utf8.DecodeRuneInString": ext۰unicode۰utf8۰DecodeRuneInString,
	})
}

func ext۰math۰Float64frombits(fr *frame, args []value) value {
	return math.Float64frombits(args[0].(uint64))
}

func ext۰math۰Float64bits(fr *frame, args []value) value {
	return math.Float64bits(args[0].(float64))
}

func ext۰math۰Float32frombits(fr *frame, args []value) value {
	return math.Float32frombits(args[0].(uint32))
}

func ext۰math۰Abs(fr *frame, args []value) value {
	return math.Abs(args[0].(float64))
}

func ext۰math۰Copysign(fr *frame, args []value) value {
	return math.Copysign(args[0].(float64), args[1].(float64))
}

func ext۰math۰Exp(fr *frame, args []value) value {
	return math.Exp(args[0].(float64))
}

func ext۰math۰Float32bits(fr *frame, args []value) value {
	return math.Float32bits(args[0].(float32))
}

func ext۰math۰Min(fr *frame, args []value) value {
	return math.Min(args[0].(float64), args[1].(float64))
}

func ext۰math۰NaN(fr *frame, args []value) value {
	return math.NaN()
}

func ext۰math۰IsNaN(fr *frame, args []value) value {
	return math.IsNaN(args[0].(float64))
}

func ext۰math۰Inf(fr *frame, args []value) value {
	return math.Inf(args[0].(int))
}

func ext۰math۰Ldexp(fr *frame, args []value) value {
	return math.Ldexp(args[0].(float64), args[1].(int))
}

func ext۰math۰Log(fr *frame, args []value) value {
	return math.Log(args[0].(float64))
}

func ext۰math۰Sqrt(fr *frame, args []value) value {
	return math.Sqrt(args[0].(float64))
}

func ext۰runtime۰Breakpoint(fr *frame, args []value) value {
	runtime.Breakpoint()
	return nil
}

func ext۰runtime۰GOMAXPROCS(fr *frame, args []value) value {
	// Ignore args[0]; don't let the interpreted program
	// set the interpreter's GOMAXPROCS!
	return runtime.GOMAXPROCS(0)
}

func ext۰runtime۰Goexit(fr *frame, args []value) value {
	// TODO(adonovan): don't kill the interpreter's main goroutine.
	runtime.Goexit()
	return nil
}

func ext۰runtime۰GOROOT(fr *frame, args []value) value {
	return runtime.GOROOT()
}

func ext۰runtime۰GC(fr *frame, args []value) value {
	runtime.GC()
	return nil
}

func ext۰runtime۰Gosched(fr *frame, args []value) value {
	runtime.Gosched()
	return nil
}

func ext۰runtime۰NumCPU(fr *frame, args []value) value {
	return runtime.NumCPU()
}

func ext۰os۰Getenv(fr *frame, args []value) value {
	name := concString(args[0])
	switch name {
	case "GOSSAINTERP":
		return "1"
	}
	return os.Getenv(name)
}

func ext۰os۰Exit(fr *frame, args []value) value {
	panic(exitPanic(int(concInt(args[0]))))
}

func ext۰unicode۰utf8۰DecodeRuneInString(fr *frame, args []value) value {
	switch s := args[0].(type) {
	case string:
		r, n := utf8.DecodeRuneInString(s)
		return tuple{r, n}
	case symString:
		if len(s.b) == 0 {
			return tuple{int32(utf8.RuneError), 0}
		}
		r, n := decodeRuneSym(s.b)
		return tuple{r, n}
	}
	return notHandled{}
}

// A fake function for turning an arbitrary value into a string.
// Handles only the cases needed by the tests.
// Uses same logic as 'print' built-in.
