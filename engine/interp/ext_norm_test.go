package interp

import (
	"math/rand"
	"testing"

	"golang.org/x/text/unicode/norm"
)

// Strings made only of inert code points must be their own NFC form.
func TestInertStringsAreNormal(t *testing.T) {
	rs := InertRanges()
	total := 0
	for _, r := range rs {
		total += int(r.hi-r.lo) + 1
	}
	t.Logf("%d ranges, %d inert code points", len(rs), total)
	rng := rand.New(rand.NewSource(7))
	pick := func() rune {
		r := rs[rng.Intn(len(rs))]
		return r.lo + rune(rng.Intn(int(r.hi-r.lo)+1))
	}
	for i := 0; i < 200000; i++ {
		n := 1 + rng.Intn(5)
		var s []rune
		for k := 0; k < n; k++ {
			s = append(s, pick())
		}
		if got := norm.NFC.String(string(s)); got != string(s) {
			t.Fatalf("%q (%U) normalises to %q", string(s), s, got)
		}
	}
	// boundary code points of every range, in pairs
	for i := 0; i+1 < len(rs); i++ {
		for _, a := range []rune{rs[i].lo, rs[i].hi} {
			for _, b := range []rune{rs[i+1].lo, rs[i+1].hi} {
				s := string([]rune{a, b, a})
				if norm.NFC.String(s) != s {
					t.Fatalf("%U %U not normal", a, b)
				}
			}
		}
	}
}
