package interp

// Mutable model of reflect.Value over the boxed heap.
//
// A reflect.Value is structure{rtype{T}, v, addr}: T is the static type, v the boxed
// value and addr, when non-nil, the *value cell the Value was derived from (through
// Pointer.Elem, Field of an addressable struct, Index of a slice, New). Addressable
// Values are settable; reads go through addr so that a Value observes later stores.
// Symbolic scalars inside values pass through untouched.

import (
	"fmt"
	"go/types"
	"reflect"
	"unsafe"

	"golang.org/x/tools/go/ssa"
)

func mkRV(t types.Type, v value, addr *value) value {
	var a value = iface{}
	if addr != nil {
		a = addr
	}
	return structure{rtype{t}, v, a}
}

func invalidRV() value { return structure{iface{}, iface{}, iface{}} }

func makeReflectValue(t types.Type, v value) value {
	if t == nil {
		return invalidRV()
	}
	return mkRV(t, v, nil)
}

func rvValid(v value) bool {
	_, ok := v.(structure)[0].(rtype)
	return ok
}

// Given a reflect.Value, returns its rtype.
func rV2T(v value) rtype {
	rt, ok := v.(structure)[0].(rtype)
	if !ok {
		panic(targetPanic{"reflect: call of method on zero Value"})
	}
	return rt
}

func rvAddr(v value) *value {
	a, _ := v.(structure)[2].(*value)
	return a
}

// Given a reflect.Value, returns the underlying interpreter value.
func rV2V(v value) value {
	if a := rvAddr(v); a != nil {
		return *a
	}
	return v.(structure)[1]
}

func rvMustAddr(v value, op string) *value {
	a := rvAddr(v)
	if a == nil {
		panic(targetPanic{"reflect: " + op + " using unaddressable value"})
	}
	return a
}

func isIfaceType(t types.Type) bool {
	_, ok := t.Underlying().(*types.Interface)
	return ok
}

// boxFor converts the payload of reflect.Value x for storage in a location of type T.
func boxFor(T types.Type, x value) value {
	xt := rV2T(x).t
	xv := rV2V(x)
	if isIfaceType(T) {
		if isIfaceType(xt) {
			return xv
		}
		return iface{t: xt, v: copyVal(xv)}
	}
	return copyVal(xv)
}

func rtypeOf(v value) types.Type { return v.(iface).v.(rtype).t }

func ext۰reflect۰rtype۰Field(fr *frame, args []value) value {
	st := args[0].(rtype).t.Underlying().(*types.Struct)
	i := args[1].(int)
	return structFieldValue(st, i)
}

func structFieldValue(st *types.Struct, i int) value {
	f := st.Field(i)
	pkg := ""
	if !f.Exported() && f.Pkg() != nil {
		pkg = f.Pkg().Path()
	}
	return structure{
		f.Name(),
		pkg,
		makeReflectType(rtype{f.Type()}),
		st.Tag(i),
		uintptr(0),
		[]value{i},
		f.Anonymous(),
	}
}

func rtypeName(t types.Type) (name, pkg string) {
	switch t := types.Unalias(t).(type) {
	case *types.Named:
		if t.Obj().Pkg() != nil {
			pkg = t.Obj().Pkg().Path()
		}
		return t.Obj().Name(), pkg
	case *types.Basic:
		return t.Name(), ""
	}
	return "", ""
}

func reflectTypeString(t types.Type) string {
	return types.TypeString(t, func(p *types.Package) string { return p.Name() })
}

var rtypeExternals = map[string]externalFn{
	"Bits":      ext۰reflect۰rtype۰Bits,
	"Elem":      ext۰reflect۰rtype۰Elem,
	"Field":     ext۰reflect۰rtype۰Field,
	"In":        ext۰reflect۰rtype۰In,
	"Kind":      ext۰reflect۰rtype۰Kind,
	"NumField":  ext۰reflect۰rtype۰NumField,
	"NumIn":     ext۰reflect۰rtype۰NumIn,
	"NumMethod": ext۰reflect۰rtype۰NumMethod,
	"NumOut":    ext۰reflect۰rtype۰NumOut,
	"Out":       ext۰reflect۰rtype۰Out,
	"Size":      ext۰reflect۰rtype۰Size,
	"String": func(fr *frame, a []value) value {
		return reflectTypeString(a[0].(rtype).t)
	},
	"Key": func(fr *frame, a []value) value {
		return makeReflectType(rtype{a[0].(rtype).t.Underlying().(*types.Map).Key()})
	},
	"Len": func(fr *frame, a []value) value {
		return int(a[0].(rtype).t.Underlying().(*types.Array).Len())
	},
	"Name": func(fr *frame, a []value) value {
		n, _ := rtypeName(a[0].(rtype).t)
		return n
	},
	"PkgPath": func(fr *frame, a []value) value {
		_, p := rtypeName(a[0].(rtype).t)
		return p
	},
	"AssignableTo": func(fr *frame, a []value) value {
		return types.AssignableTo(a[0].(rtype).t, rtypeOf(a[1]))
	},
	"ConvertibleTo": func(fr *frame, a []value) value {
		return types.ConvertibleTo(a[0].(rtype).t, rtypeOf(a[1]))
	},
	"Implements": func(fr *frame, a []value) value {
		it, ok := rtypeOf(a[1]).Underlying().(*types.Interface)
		if !ok {
			panic(targetPanic{"reflect: non-interface type passed to Type.Implements"})
		}
		return types.Implements(a[0].(rtype).t, it)
	},
	"Comparable": func(fr *frame, a []value) value {
		return types.Comparable(a[0].(rtype).t)
	},
	"FieldByName": func(fr *frame, a []value) value {
		st := a[0].(rtype).t.Underlying().(*types.Struct)
		name := a[1].(string)
		for i := 0; i < st.NumFields(); i++ {
			if st.Field(i).Name() == name {
				return tuple{structFieldValue(st, i), true}
			}
		}
		return tuple{structure{"", "", iface{}, "", uintptr(0), []value(nil), false}, false}
	},
}

func intArg(v value) int { return int(asInt64(v)) }

var valueExternals = map[string]externalFn{
	"Kind": func(fr *frame, a []value) value {
		if !rvValid(a[0]) {
			return uint(reflect.Invalid)
		}
		return uint(reflectKind(rV2T(a[0]).t))
	},
	"Type":         func(fr *frame, a []value) value { return makeReflectType(rV2T(a[0])) },
	"IsValid":      func(fr *frame, a []value) value { return rvValid(a[0]) },
	"CanAddr":      func(fr *frame, a []value) value { return rvAddr(a[0]) != nil },
	"CanSet":       func(fr *frame, a []value) value { return rvAddr(a[0]) != nil },
	"CanInterface": func(fr *frame, a []value) value { return true },
	"String": func(fr *frame, a []value) value {
		if !rvValid(a[0]) {
			return "<invalid Value>"
		}
		switch v := rV2V(a[0]).(type) {
		case string, symString:
			return v
		}
		return "<" + reflectTypeString(rV2T(a[0]).t) + " Value>"
	},
	"Bool": func(fr *frame, a []value) value {
		switch v := rV2V(a[0]).(type) {
		case bool, symBool:
			return v
		}
		panic(targetPanic{"reflect: call of reflect.Value.Bool on non-bool Value"})
	},
	"Int": func(fr *frame, a []value) value {
		t := rV2T(a[0]).t
		if b, ok := t.Underlying().(*types.Basic); !ok || b.Info()&types.IsInteger == 0 || b.Info()&types.IsUnsigned != 0 {
			panic(targetPanic{"reflect: call of reflect.Value.Int on " + reflectTypeString(t) + " Value"})
		}
		return conv(types.Typ[types.Int64], t, rV2V(a[0]))
	},
	"Uint": func(fr *frame, a []value) value {
		t := rV2T(a[0]).t
		if b, ok := t.Underlying().(*types.Basic); !ok || b.Info()&types.IsUnsigned == 0 {
			panic(targetPanic{"reflect: call of reflect.Value.Uint on " + reflectTypeString(t) + " Value"})
		}
		return conv(types.Typ[types.Uint64], t, rV2V(a[0]))
	},
	"Float": func(fr *frame, a []value) value {
		t := rV2T(a[0]).t
		if b, ok := t.Underlying().(*types.Basic); !ok || b.Info()&types.IsFloat == 0 {
			panic(targetPanic{"reflect: call of reflect.Value.Float on " + reflectTypeString(t) + " Value"})
		}
		return conv(types.Typ[types.Float64], t, rV2V(a[0]))
	},
	"Len": func(fr *frame, a []value) value {
		switch v := rV2V(a[0]).(type) {
		case string:
			return len(v)
		case symString:
			return len(v.b)
		case array:
			return len(v)
		case chan value:
			return len(v)
		case []value:
			return len(v)
		case *omap:
			return v.len()
		default:
			panic(fmt.Sprintf("reflect.(Value).Len(%T)", v))
		}
	},
	"Cap": func(fr *frame, a []value) value {
		switch v := rV2V(a[0]).(type) {
		case array:
			return len(v)
		case []value:
			return cap(v)
		default:
			panic(fmt.Sprintf("reflect.(Value).Cap(%T)", v))
		}
	},
	"NumField": func(fr *frame, a []value) value {
		return rV2T(a[0]).t.Underlying().(*types.Struct).NumFields()
	},
	"NumMethod": func(fr *frame, a []value) value {
		return fr.i.prog.MethodSets.MethodSet(rV2T(a[0]).t).Len()
	},
	"IsNil": func(fr *frame, a []value) value {
		switch x := rV2V(a[0]).(type) {
		case *value:
			return x == nil
		case chan value:
			return x == nil
		case *omap:
			return x == nil
		case iface:
			return x.t == nil
		case []value:
			return x == nil
		case *ssa.Function:
			return x == nil
		case *ssa.Builtin:
			return x == nil
		case *closure:
			return x == nil
		default:
			panic(targetPanic{fmt.Sprintf("reflect: call of reflect.Value.IsNil on %s Value", reflectTypeString(rV2T(a[0]).t))})
		}
	},
	"IsZero": func(fr *frame, a []value) value {
		t := rV2T(a[0]).t
		switch x := rV2V(a[0]).(type) {
		case *value:
			return x == nil
		case *omap:
			return x == nil
		case []value:
			return x == nil
		case iface:
			return x.t == nil
		case chan value:
			return x == nil
		case *ssa.Function:
			return x == nil
		case *closure:
			return x == nil
		default:
			return equalsV(t, x, zero(t))
		}
	},
	"Pointer":       rvPointer,
	"UnsafePointer": func(fr *frame, a []value) value { return unsafe.Pointer(rvPointer(fr, a).(uintptr)) },
	"Elem": func(fr *frame, a []value) value {
		switch x := rV2V(a[0]).(type) {
		case iface:
			if x.t == nil {
				return invalidRV()
			}
			return mkRV(x.t, x.v, nil)
		case *value:
			if x == nil {
				return invalidRV()
			}
			return mkRV(rV2T(a[0]).t.Underlying().(*types.Pointer).Elem(), *x, x)
		default:
			panic(targetPanic{fmt.Sprintf("reflect: call of reflect.Value.Elem on %s Value", reflectTypeString(rV2T(a[0]).t))})
		}
	},
	"Field": func(fr *frame, a []value) value {
		i := intArg(a[1])
		st, ok := rV2T(a[0]).t.Underlying().(*types.Struct)
		if !ok {
			panic(targetPanic{"reflect: call of reflect.Value.Field on non-struct Value"})
		}
		if i < 0 || i >= st.NumFields() {
			panic(targetPanic{"reflect: Field index out of range"})
		}
		s := rV2V(a[0]).(structure)
		if rvAddr(a[0]) != nil {
			return mkRV(st.Field(i).Type(), s[i], &s[i])
		}
		return mkRV(st.Field(i).Type(), s[i], nil)
	},
	"FieldByName": func(fr *frame, a []value) value {
		st := rV2T(a[0]).t.Underlying().(*types.Struct)
		name := a[1].(string)
		for i := 0; i < st.NumFields(); i++ {
			if st.Field(i).Name() == name {
				s := rV2V(a[0]).(structure)
				if rvAddr(a[0]) != nil {
					return mkRV(st.Field(i).Type(), s[i], &s[i])
				}
				return mkRV(st.Field(i).Type(), s[i], nil)
			}
		}
		return invalidRV()
	},
	"Index": func(fr *frame, a []value) value {
		i := intArg(a[1])
		t := rV2T(a[0]).t.Underlying()
		switch v := rV2V(a[0]).(type) {
		case array:
			if i < 0 || i >= len(v) {
				panic(targetPanic{"reflect: array index out of range"})
			}
			if rvAddr(a[0]) != nil {
				return mkRV(t.(*types.Array).Elem(), v[i], &v[i])
			}
			return mkRV(t.(*types.Array).Elem(), v[i], nil)
		case []value:
			if i < 0 || i >= len(v) {
				panic(targetPanic{"reflect: slice index out of range"})
			}
			return mkRV(t.(*types.Slice).Elem(), v[i], &v[i])
		case string:
			if i < 0 || i >= len(v) {
				panic(targetPanic{"reflect: string index out of range"})
			}
			return mkRV(types.Typ[types.Uint8], v[i], nil)
		default:
			panic(fmt.Sprintf("reflect.(Value).Index(%T)", v))
		}
	},
	"Interface": func(fr *frame, a []value) value {
		t := rV2T(a[0]).t
		v := rV2V(a[0])
		if isIfaceType(t) {
			return v
		}
		return iface{t: t, v: copyVal(v)}
	},
	"Addr": func(fr *frame, a []value) value {
		p := rvMustAddr(a[0], "reflect.Value.Addr")
		return mkRV(types.NewPointer(rV2T(a[0]).t), p, nil)
	},
	"Set": func(fr *frame, a []value) value {
		p := rvMustAddr(a[0], "reflect.Value.Set")
		T := rV2T(a[0]).t
		if !rvValid(a[1]) {
			panic(targetPanic{"reflect: call of reflect.Value.Set on zero Value"})
		}
		if xt := rV2T(a[1]).t; !types.AssignableTo(xt, T) {
			panic(targetPanic{"reflect.Set: value of type " + reflectTypeString(xt) + " is not assignable to type " + reflectTypeString(T)})
		}
		store(T, p, boxFor(T, a[1]))
		return nil
	},
	"SetBool": func(fr *frame, a []value) value {
		*rvMustAddr(a[0], "reflect.Value.SetBool") = a[1]
		return nil
	},
	"SetString": func(fr *frame, a []value) value {
		*rvMustAddr(a[0], "reflect.Value.SetString") = a[1]
		return nil
	},
	"SetInt": func(fr *frame, a []value) value {
		*rvMustAddr(a[0], "reflect.Value.SetInt") = conv(rV2T(a[0]).t, types.Typ[types.Int64], a[1])
		return nil
	},
	"SetUint": func(fr *frame, a []value) value {
		*rvMustAddr(a[0], "reflect.Value.SetUint") = conv(rV2T(a[0]).t, types.Typ[types.Uint64], a[1])
		return nil
	},
	"SetFloat": func(fr *frame, a []value) value {
		*rvMustAddr(a[0], "reflect.Value.SetFloat") = conv(rV2T(a[0]).t, types.Typ[types.Float64], a[1])
		return nil
	},
	"SetLen": func(fr *frame, a []value) value {
		p := rvMustAddr(a[0], "reflect.Value.SetLen")
		*p = (*p).([]value)[:intArg(a[1])]
		return nil
	},
	"OverflowInt": func(fr *frame, a []value) value {
		x := asInt64(a[1])
		bits := uint(fr.i.sizes.Sizeof(rV2T(a[0]).t.Underlying()) * 8)
		trunc := (x << (64 - bits)) >> (64 - bits)
		return x != trunc
	},
	"OverflowUint": func(fr *frame, a []value) value {
		x := asUint64(a[1])
		bits := uint(fr.i.sizes.Sizeof(rV2T(a[0]).t.Underlying()) * 8)
		trunc := (x << (64 - bits)) >> (64 - bits)
		return x != trunc
	},
	"OverflowFloat": func(fr *frame, a []value) value {
		x := a[1].(float64)
		if fr.i.sizes.Sizeof(rV2T(a[0]).t.Underlying()) == 4 {
			if x < 0 {
				x = -x
			}
			return 3.40282346638528859811704183484516925440e+38 < x && x <= 1.79769313486231570814527423731704356798070e+308
		}
		return false
	},
	"Convert": func(fr *frame, a []value) value {
		src := rV2T(a[0]).t
		dst := rtypeOf(a[1])
		if !types.ConvertibleTo(src, dst) {
			panic(targetPanic{"reflect.Value.Convert: value of type " + reflectTypeString(src) + " cannot be converted to type " + reflectTypeString(dst)})
		}
		v := rV2V(a[0])
		if isIfaceType(dst) {
			if isIfaceType(src) {
				return mkRV(dst, v, nil)
			}
			return mkRV(dst, iface{t: src, v: copyVal(v)}, nil)
		}
		if types.Identical(src.Underlying(), dst.Underlying()) {
			return mkRV(dst, copyVal(v), nil)
		}
		if _, ok := dst.Underlying().(*types.Pointer); ok {
			return mkRV(dst, v, nil)
		}
		return mkRV(dst, conv(dst, src, v), nil)
	},
	"MapIndex": func(fr *frame, a []value) value {
		mt := rV2T(a[0]).t.Underlying().(*types.Map)
		m := rV2V(a[0]).(*omap)
		if m == nil {
			return invalidRV()
		}
		if v, ok := m.lookup(boxFor(mt.Key(), a[1])); ok {
			return mkRV(mt.Elem(), copyVal(v), nil)
		}
		return invalidRV()
	},
	"MapKeys": func(fr *frame, a []value) value {
		keys := []value{}
		mt := rV2T(a[0]).t.Underlying().(*types.Map)
		m := rV2V(a[0]).(*omap)
		if m == nil {
			return keys
		}
		it := m.iter()
		for {
			t := it.next()
			if !t[0].(bool) {
				break
			}
			keys = append(keys, mkRV(mt.Key(), t[1], nil))
		}
		return keys
	},
	"SetMapIndex": func(fr *frame, a []value) value {
		mt := rV2T(a[0]).t.Underlying().(*types.Map)
		m := rV2V(a[0]).(*omap)
		if m == nil {
			panic(targetPanic{"assignment to entry in nil map"})
		}
		k := boxFor(mt.Key(), a[1])
		if !rvValid(a[2]) {
			m.delete(k)
			return nil
		}
		if xt := rV2T(a[2]).t; !types.AssignableTo(xt, mt.Elem()) {
			panic(targetPanic{"reflect.Value.SetMapIndex: value of type " + reflectTypeString(xt) + " is not assignable to type " + reflectTypeString(mt.Elem())})
		}
		m.insert(k, boxFor(mt.Elem(), a[2]))
		return nil
	},
	"Slice": func(fr *frame, a []value) value {
		lo, hi := intArg(a[1]), intArg(a[2])
		switch v := rV2V(a[0]).(type) {
		case []value:
			return mkRV(rV2T(a[0]).t, v[lo:hi], nil)
		case string:
			return mkRV(rV2T(a[0]).t, v[lo:hi], nil)
		default:
			panic(fmt.Sprintf("reflect.(Value).Slice(%T)", v))
		}
	},
}

func rvPointer(fr *frame, a []value) value {
	switch v := rV2V(a[0]).(type) {
	case *value:
		return uintptr(unsafe.Pointer(v))
	case chan value:
		return reflect.ValueOf(v).Pointer()
	case []value:
		return reflect.ValueOf(v).Pointer()
	case *omap:
		return uintptr(unsafe.Pointer(v))
	case *ssa.Function:
		return uintptr(unsafe.Pointer(v))
	case *closure:
		return uintptr(unsafe.Pointer(v))
	default:
		panic(fmt.Sprintf("reflect.(Value).Pointer(%T)", v))
	}
}

var reflectFuncExternals = map[string]externalFn{
	"New": func(fr *frame, a []value) value {
		t := rtypeOf(a[0])
		alloc := zero(t)
		return mkRV(types.NewPointer(t), &alloc, nil)
	},
	"Zero": func(fr *frame, a []value) value {
		t := rtypeOf(a[0])
		return mkRV(t, zero(t), nil)
	},
	"TypeOf": func(fr *frame, a []value) value {
		itf := a[0].(iface)
		if itf.t == nil {
			return iface{}
		}
		return makeReflectType(rtype{itf.t})
	},
	"ValueOf": func(fr *frame, a []value) value {
		itf := a[0].(iface)
		if itf.t == nil {
			return invalidRV()
		}
		return mkRV(itf.t, itf.v, nil)
	},
	"SliceOf":   func(fr *frame, a []value) value { return makeReflectType(rtype{types.NewSlice(rtypeOf(a[0]))}) },
	"PointerTo": func(fr *frame, a []value) value { return makeReflectType(rtype{types.NewPointer(rtypeOf(a[0]))}) },
	"PtrTo":     func(fr *frame, a []value) value { return makeReflectType(rtype{types.NewPointer(rtypeOf(a[0]))}) },
	"MapOf": func(fr *frame, a []value) value {
		return makeReflectType(rtype{types.NewMap(rtypeOf(a[0]), rtypeOf(a[1]))})
	},
	"Indirect": func(fr *frame, a []value) value {
		if !rvValid(a[0]) {
			return a[0]
		}
		if _, ok := rV2T(a[0]).t.Underlying().(*types.Pointer); !ok {
			return a[0]
		}
		return valueExternals["Elem"](fr, a)
	},
	"MakeSlice": func(fr *frame, a []value) value {
		t := rtypeOf(a[0])
		st, ok := t.Underlying().(*types.Slice)
		if !ok {
			panic(targetPanic{"reflect.MakeSlice of non-slice type"})
		}
		n, c := intArg(a[1]), intArg(a[2])
		if n < 0 || c < n {
			panic(targetPanic{"reflect.MakeSlice: bad len/cap"})
		}
		s := make([]value, n, c)
		for i := range s {
			s[i] = zero(st.Elem())
		}
		return mkRV(t, s, nil)
	},
	"MakeMap": func(fr *frame, a []value) value {
		t := rtypeOf(a[0])
		return mkRV(t, makeMap(t.Underlying().(*types.Map).Key(), 0), nil)
	},
	"MakeMapWithSize": func(fr *frame, a []value) value {
		t := rtypeOf(a[0])
		return mkRV(t, makeMap(t.Underlying().(*types.Map).Key(), 0), nil)
	},
	"Append": func(fr *frame, a []value) value {
		t := rV2T(a[0]).t
		et := t.Underlying().(*types.Slice).Elem()
		old := rV2V(a[0]).([]value)
		s := make([]value, len(old), len(old)+len(a[1].([]value)))
		copy(s, old)
		for _, x := range a[1].([]value) {
			if xt := rV2T(x).t; !types.AssignableTo(xt, et) {
				panic(targetPanic{"reflect.Append: value of type " + reflectTypeString(xt) + " is not assignable to type " + reflectTypeString(et)})
			}
			s = append(s, boxFor(et, x))
		}
		return mkRV(t, s, nil)
	},
	"AppendSlice": func(fr *frame, a []value) value {
		t := rV2T(a[0]).t
		old := rV2V(a[0]).([]value)
		add := rV2V(a[1]).([]value)
		s := make([]value, 0, len(old)+len(add))
		s = append(s, old...)
		for _, x := range add {
			s = append(s, copyVal(x))
		}
		return mkRV(t, s, nil)
	},
}

func init() {
	for name, fn := range rtypeExternals {
		externals["(reflect.rtype)."+name] = fn
	}
	for name, fn := range valueExternals {
		externals["(reflect.Value)."+name] = fn
	}
	for name, fn := range reflectFuncExternals {
		externals["reflect."+name] = fn
	}
}

func isReflectValueType(t types.Type) bool {
	n, ok := types.Unalias(t).(*types.Named)
	return ok && n.Obj().Name() == "Value" && n.Obj().Pkg() != nil && n.Obj().Pkg().Path() == "reflect"
}

// reflectValueEq is == on two reflect.Value structs: the real library compares the type
// word, the data pointer and the flags; here: validity, type and the cell (or, for
// pointer-shaped payloads, the pointer) they refer to.
func reflectValueEq(x, y structure) value {
	xv, yv := rvValid(x), rvValid(y)
	if !xv || !yv {
		return xv == yv
	}
	if !types.Identical(rV2T(x).t, rV2T(y).t) {
		return false
	}
	if xa, ya := rvAddr(x), rvAddr(y); xa != nil || ya != nil {
		return xa == ya
	}
	switch a := x[1].(type) {
	case *value:
		b, ok := y[1].(*value)
		return ok && a == b
	case *omap:
		b, ok := y[1].(*omap)
		return ok && a == b
	}
	return false
}
