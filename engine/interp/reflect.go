// Copyright 2013 The Go Authors. All rights reserved.
// Use of this source code is governed by a BSD-style
// license that can be found in the LICENSE file.

package interp

// Emulated "reflect" package.
//
// We completely replace the built-in "reflect" package.
// The only thing clients can depend upon are that reflect.Type is an
// interface and reflect.Value is an (opaque) struct.

import (
	"fmt"
	"go/token"
	"go/types"
	"reflect"

	"golang.org/x/tools/go/ssa"
)

type opaqueType struct {
	types.Type
	name string
}

func (t *opaqueType) String() string { return t.name }

// A bogus "reflect" type-checker package.  Shared across interpreters.
var reflectTypesPackage = types.NewPackage("reflect", "reflect")

// rtype is the concrete type the interpreter uses to implement the
// reflect.Type interface.
//
// type rtype <opaque>
var rtypeType = makeNamedType("rtype", &opaqueType{nil, "rtype"})

// error is an (interpreted) named type whose underlying type is string.
// The interpreter uses it for all implementations of the built-in error
// interface that it creates.
// We put it in the "reflect" package for expedience.
//
// type error string
var errorType = makeNamedType("error", &opaqueType{nil, "error"})

func makeNamedType(name string, underlying types.Type) *types.Named {
	obj := types.NewTypeName(token.NoPos, reflectTypesPackage, name, nil)
	return types.NewNamed(obj, underlying, nil)
}

// makeReflectType boxes up an rtype in a reflect.Type interface.
func makeReflectType(rt rtype) value {
	return iface{rtypeType, rt}
}

func ext۰reflect۰rtype۰Bits(fr *frame, args []value) value {
	// Signature: func (t reflect.rtype) int
	rt := args[0].(rtype).t
	basic, ok := rt.Underlying().(*types.Basic)
	if !ok {
		panic(fmt.Sprintf("reflect.Type.Bits(%T): non-basic type", rt))
	}
	return int(fr.i.sizes.Sizeof(basic)) * 8
}

func ext۰reflect۰rtype۰Elem(fr *frame, args []value) value {
	// Signature: func (t reflect.rtype) reflect.Type
	return makeReflectType(rtype{args[0].(rtype).t.Underlying().(interface {
		Elem() types.Type
	}).Elem()})
}

func ext۰reflect۰rtype۰In(fr *frame, args []value) value {
	// Signature: func (t reflect.rtype, i int) int
	i := args[1].(int)
	return makeReflectType(rtype{args[0].(rtype).t.(*types.Signature).Params().At(i).Type()})
}

func ext۰reflect۰rtype۰Kind(fr *frame, args []value) value {
	// Signature: func (t reflect.rtype) uint
	return uint(reflectKind(args[0].(rtype).t))
}

func ext۰reflect۰rtype۰NumField(fr *frame, args []value) value {
	// Signature: func (t reflect.rtype) int
	return args[0].(rtype).t.Underlying().(*types.Struct).NumFields()
}

func ext۰reflect۰rtype۰NumIn(fr *frame, args []value) value {
	// Signature: func (t reflect.rtype) int
	return args[0].(rtype).t.Underlying().(*types.Signature).Params().Len()
}

func ext۰reflect۰rtype۰NumMethod(fr *frame, args []value) value {
	// Signature: func (t reflect.rtype) int
	return fr.i.prog.MethodSets.MethodSet(args[0].(rtype).t).Len()
}

func ext۰reflect۰rtype۰NumOut(fr *frame, args []value) value {
	// Signature: func (t reflect.rtype) int
	return args[0].(rtype).t.Underlying().(*types.Signature).Results().Len()
}

func ext۰reflect۰rtype۰Out(fr *frame, args []value) value {
	// Signature: func (t reflect.rtype, i int) int
	i := args[1].(int)
	return makeReflectType(rtype{args[0].(rtype).t.Underlying().(*types.Signature).Results().At(i).Type()})
}

func ext۰reflect۰rtype۰Size(fr *frame, args []value) value {
	// Signature: func (t reflect.rtype) uintptr
	return uintptr(fr.i.sizes.Sizeof(args[0].(rtype).t))
}

func ext۰reflect۰rtype۰String(fr *frame, args []value) value {
	// Signature: func (t reflect.rtype) string
	return args[0].(rtype).t.String()
}

func ext۰reflect۰SliceOf(fr *frame, args []value) value {
	// Signature: func (t reflect.rtype) Type
	return makeReflectType(rtype{types.NewSlice(args[0].(iface).v.(rtype).t)})
}

func ext۰reflect۰TypeOf(fr *frame, args []value) value {
	// Signature: func (t reflect.rtype) Type
	return makeReflectType(rtype{args[0].(iface).t})
}

func reflectKind(t types.Type) reflect.Kind {
	switch t := t.(type) {
	case *types.Named, *types.Alias:
		return reflectKind(t.Underlying())
	case *types.Basic:
		switch t.Kind() {
		case types.Bool:
			return reflect.Bool
		case types.Int:
			return reflect.Int
		case types.Int8:
			return reflect.Int8
		case types.Int16:
			return reflect.Int16
		case types.Int32:
			return reflect.Int32
		case types.Int64:
			return reflect.Int64
		case types.Uint:
			return reflect.Uint
		case types.Uint8:
			return reflect.Uint8
		case types.Uint16:
			return reflect.Uint16
		case types.Uint32:
			return reflect.Uint32
		case types.Uint64:
			return reflect.Uint64
		case types.Uintptr:
			return reflect.Uintptr
		case types.Float32:
			return reflect.Float32
		case types.Float64:
			return reflect.Float64
		case types.Complex64:
			return reflect.Complex64
		case types.Complex128:
			return reflect.Complex128
		case types.String:
			return reflect.String
		case types.UnsafePointer:
			return reflect.UnsafePointer
		}
	case *types.Array:
		return reflect.Array
	case *types.Chan:
		return reflect.Chan
	case *types.Signature:
		return reflect.Func
	case *types.Interface:
		return reflect.Interface
	case *types.Map:
		return reflect.Map
	case *types.Pointer:
		return reflect.Pointer
	case *types.Slice:
		return reflect.Slice
	case *types.Struct:
		return reflect.Struct
	}
	panic(fmt.Sprint("unexpected type: ", t))
}

func ext۰reflect۰error۰Error(fr *frame, args []value) value {
	return args[0]
}

// newMethod creates a new method of the specified name, package and receiver type.
func newMethod(pkg *ssa.Package, recvType types.Type, name string) *ssa.Function {
	// TODO(adonovan): fix: hack: currently the only part of Signature
	// that is needed is the "pointerness" of Recv.Type, and for
	// now, we'll set it to always be false since we're only
	// concerned with rtype.  Encapsulate this better.
	sig := types.NewSignatureType(types.NewParam(token.NoPos, nil, "recv", recvType), nil, nil, nil, nil, false)
	fn := pkg.Prog.NewFunction(name, sig, "fake reflect method")
	fn.Pkg = pkg
	return fn
}

func initReflect(i *interpreter) {
	i.reflectPackage = &ssa.Package{
		Prog:    i.prog,
		Pkg:     reflectTypesPackage,
		Members: make(map[string]ssa.Member),
	}

	// Clobber the type-checker's notion of reflect.Value's
	// underlying type so that it more closely matches the fake one
	// (at least in the number of fields---we lie about the type of
	// the rtype field).
	//
	// We must ensure that calls to (ssa.Value).Type() return the
	// fake type so that correct "shape" is used when allocating
	// variables, making zero values, loading, and storing.
	//
	// TODO(adonovan): obviously this is a hack.  We need a cleaner
	// way to fake the reflect package (almost---DeepEqual is fine).
	// One approach would be not to even load its source code, but
	// provide fake source files.  This would guarantee that no bad
	// information leaks into other packages.
	if r := i.prog.ImportedPackage("reflect"); r != nil {
		rV := r.Pkg.Scope().Lookup("Value").Type().(*types.Named)

		// delete bodies of the old methods
		mset := i.prog.MethodSets.MethodSet(rV)
		for j := 0; j < mset.Len(); j++ {
			i.prog.MethodValue(mset.At(j)).Blocks = nil
		}

		tEface := types.NewInterface(nil, nil).Complete()
		rV.SetUnderlying(types.NewStruct([]*types.Var{
			types.NewField(token.NoPos, r.Pkg, "t", tEface, false), // a lie
			types.NewField(token.NoPos, r.Pkg, "v", tEface, false),
			types.NewField(token.NoPos, r.Pkg, "addr", tEface, false), // *value when addressable
		}, nil))
	}

	i.rtypeMethods = methodSet{}
	for name := range rtypeExternals {
		i.rtypeMethods[name] = newMethod(i.reflectPackage, rtypeType, name)
	}
	i.errorMethods = methodSet{
		"Error": newMethod(i.reflectPackage, errorType, "Error"),
	}
}
