package interp

import (
	"fmt"
	"go/token"
	"go/types"
	"os"
	"runtime"
	"runtime/debug"
	"strings"

	"golang.org/x/tools/go/ssa"

	"verif/engine/smt"
)

type notHandled struct{}

func mustDeref(t types.Type) types.Type {
	if p, ok := t.Underlying().(*types.Pointer); ok {
		return p.Elem()
	}
	panic(fmt.Sprintf("mustDeref: %v is not a pointer", t))
}

// Packages whose init functions are not executed (they need the real runtime,
// reflection or the OS). Their package-level variables keep zero values.
var skipInitPrefixes = []string{
	"runtime", "internal/", "sync", "syscall", "os", "reflect", "unsafe", "time",
	"io/fs", "path", "math/rand", "crypto", "log", "encoding", "iter", "weak",
	"unique", "errors", "github.com/google/go-cmp", "fmt", "flag", "testing",
	"context", "regexp", "text/", "html", "net", "compress", "bufio",
	"github.com/davecgh/go-spew", "github.com/go-test/deep", "golang.org/x/sys", "embed",
	"golang.org/x/term", "github.com/spf13/pflag", "go/", "maps", "slices", "cmp",
}

func skipInit(path string) bool {
	for _, p := range skipInitPrefixes {
		if path == p || strings.HasPrefix(path, p+"/") || (strings.HasSuffix(p, "/") && strings.HasPrefix(path, p)) {
			return true
		}
	}
	return false
}

// onlyLoadedOrStored reports whether the address computed by instr is used
// only as the operand of loads and as the address of stores.
func onlyLoadedOrStored(instr *ssa.IndexAddr) bool {
	refs := instr.Referrers()
	if refs == nil {
		return false
	}
	for _, r := range *refs {
		switch r := r.(type) {
		case *ssa.UnOp:
			if r.Op != token.MUL {
				return false
			}
		case *ssa.Store:
			if r.Addr != ssa.Value(instr) {
				return false
			}
		case *ssa.DebugRef:
		default:
			return false
		}
	}
	return true
}

func spawnGoroutine(fr *frame, instr *ssa.Go, fn value, args []value) {
	if sched == nil {
		sched = newScheduler(fr.i)
	}
	sched.spawn(fr, instr, fn, args)
}

// Machine is an initialised interpreter: program loaded, package inits run.
type Machine struct {
	i      *interpreter
	Solver *smt.Solver
}

func (i *interpreter) linkname(fn *ssa.Function) *ssa.Function {
	if t, ok := i.lnCache[fn]; ok {
		return t
	}
	var tgt *ssa.Function
	if fn.Pkg != nil {
		if name, ok := i.linknames[fn.Pkg.Pkg.Path()+"."+fn.Name()]; ok {
			// name is "import/path.Func" or "import/path.(*T).Method"/"import/path.T.Method"
			dot := strings.LastIndex(name, "/")
			rest := name
			prefix := ""
			if dot >= 0 {
				prefix, rest = name[:dot+1], name[dot+1:]
			}
			parts := strings.SplitN(rest, ".", 2)
			pkgPath := prefix + parts[0]
			if pkg := i.prog.ImportedPackage(pkgPath); pkg != nil && len(parts) == 2 {
				sym := parts[1]
				if f := pkg.Func(sym); f != nil {
					tgt = f
				} else if strings.Contains(sym, ".") {
					// method: "(*T).M" or "T.M"
					mp := strings.SplitN(strings.NewReplacer("(", "", ")", "").Replace(sym), ".", 2)
					tn := strings.TrimPrefix(mp[0], "*")
					if tm := pkg.Type(tn); tm != nil {
						var recv types.Type = tm.Type()
						if strings.HasPrefix(mp[0], "*") {
							recv = types.NewPointer(recv)
						}
						tgt = i.prog.LookupMethod(recv, pkg.Pkg, mp[1])
					}
				}
			}
		}
	}
	i.lnCache[fn] = tgt
	return tgt
}

// NewMachine prepares the interpreter for the program containing mainpkg and
// runs the package initialisers. linknames maps "pkg/path.local" to the
// //go:linkname target, for body-less declarations in harness packages.
func NewMachine(mainpkg *ssa.Package, sizes types.Sizes, linknames map[string]string, mode Mode) (*Machine, error) {
	i := &interpreter{
		prog:       mainpkg.Prog,
		globals:    make(map[*ssa.Global]*value),
		mode:       mode,
		sizes:      sizes,
		goroutines: 1,
		extCache:   make(map[*ssa.Function]externalFn),
		fnInfos:    make(map[*ssa.Function]*fnInfo),
		linknames:  linknames,
		lnCache:    make(map[*ssa.Function]*ssa.Function),
	}
	runtimePkg := i.prog.ImportedPackage("runtime")
	if runtimePkg == nil {
		return nil, fmt.Errorf("ssa.Program doesn't include runtime package")
	}
	i.runtimeErrorString = runtimePkg.Type("errorString").Object().Type()
	initReflect(i)
	for _, pkg := range i.prog.AllPackages() {
		for _, m := range pkg.Members {
			if v, ok := m.(*ssa.Global); ok {
				cell := zero(mustDeref(v.Type()))
				i.globals[v] = &cell
			}
		}
	}
	m := &Machine{i: i}
	// Inits run with a concrete-only path state so that helper code that
	// consults P works.
	P = newPath(nil, Item{}, nil, nil)
	var err error
	func() {
		defer func() {
			if r := recover(); r != nil {
				err = fmt.Errorf("panic during package init: %v\ntarget stack:\n%s", panicString(r), lastPanicStack)
			}
		}()
		call(i, nil, token.NoPos, mainpkg.Func("init"), nil)
	}()
	P = nil
	return m, err
}

func panicString(r any) string {
	switch r := r.(type) {
	case targetPanic:
		return "target panic: " + toString(r.v)
	case engineAbort:
		return r.String()
	case runtime.Error:
		return r.Error()
	case error:
		return r.Error()
	}
	return fmt.Sprint(r)
}

// Config holds per-check settings for path execution.
type Config struct {
	MaxSteps     int
	MaxDecisions int
	Known        map[string]bool
	Params       map[string]int
	NoFast       bool
}

func newPath(s *smt.Solver, item Item, cfg *Config, _ any) *path {
	p := &path{ctx: smt.NewCtx(), solver: s, item: item, funcs: map[*ssa.Function]bool{},
		doms:     map[*smt.Term]*domain{},
		MaxSteps: 50_000_000, MaxDecisions: 4000}
	if cfg != nil {
		if cfg.MaxSteps > 0 {
			p.MaxSteps = cfg.MaxSteps
		}
		if cfg.MaxDecisions > 0 {
			p.MaxDecisions = cfg.MaxDecisions
		}
		p.Known = cfg.Known
		p.Params = cfg.Params
		p.NoFast = cfg.NoFast
	}
	if item.Model != nil {
		p.ctx.SetModel(item.Model)
	}
	return p
}

// RunPath executes harness function fn once under item and returns what happened.
func (m *Machine) RunPath(fn *ssa.Function, item Item, cfg *Config) (res PathResult) {
	p := newPath(m.Solver, item, cfg, nil)
	P = p
	lastPanicStack = ""
	m.Solver.Begin()
	defer func() {
		if sched != nil {
			sched.kill()
			sched = nil
		}
		m.Solver.End()
		P = nil
	}()
	func() {
		defer func() {
			r := recover()
			if r == nil {
				p.res.Outcome = "ok"
				return
			}
			switch r := r.(type) {
			case engineAbort:
				switch r.kind {
				case "done":
					p.res.Outcome = "ok"
				default:
					p.res.Outcome = r.kind
				}
				p.res.Msg = r.msg
			default:
				// A panic that escaped the harness: a violation of totality
				// unless the harness recovered it itself.
				p.res.Outcome = "panic"
				p.res.Msg = panicString(r) + "\ntarget stack:\n" + lastPanicStack
				if os.Getenv("GOSYM_DEBUG") != "" {
					p.res.Msg += "\n" + string(debug.Stack())
				}
				p.res.Violations = append(p.res.Violations, Violation{ID: "panic", Kind: "panic", Msg: p.res.Msg, Vector: p.vector(), Inputs: p.renderInputs()})
			}
		}()
		sched = nil
		call(m.i, nil, token.NoPos, fn, nil)
	}()
	p.finish()
	return p.res
}

// Lookup finds a package-level function "pkg/path.Name".
func (m *Machine) Lookup(pkgPath, name string) *ssa.Function {
	if pkg := m.i.prog.ImportedPackage(pkgPath); pkg != nil {
		return pkg.Func(name)
	}
	return nil
}

// DebugState describes what the current path is doing (racy; diagnostics only).
func DebugState() string {
	p := P
	if p == nil {
		return "idle"
	}
	s := fmt.Sprintf("steps=%d decisions=%d inputs=%s fn=%v", p.steps, len(p.trace), p.renderInputsUnsafe(), p.curFn)
	if p.solver != nil {
		s += fmt.Sprintf(" solver-queries=%d solver-time=%v", p.solver.Queries, p.solver.Time)
	}
	return s
}

func (p *path) renderInputsUnsafe() (s string) {
	defer func() { recover() }()
	return p.renderInputs()
}
