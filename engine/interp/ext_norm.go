package interp

// Model of golang.org/x/text/unicode/norm.NFC.String (called by cty.StringVal
// for every string value). The real implementation is table-driven over
// ~20k-entry tries; with symbolic bytes that produces nested ite chains no
// solver finishes. The model is exact: a string consisting only of "inert"
// code points (self-normal, with a normalisation boundary before and after)
// is its own NFC form, which covers almost all of Unicode with one range
// condition per rune; any other string is made concrete and handed to the
// real library.

import (
	"go/types"
	"sync"
	"unicode/utf8"

	"golang.org/x/text/unicode/norm"

	"verif/engine/smt"
)

type runeRange struct{ lo, hi rune }

var (
	inertOnce   sync.Once
	inertRanges []runeRange
)

func nfcInert(r rune) bool {
	if r >= 0xD800 && r <= 0xDFFF {
		return false
	}
	s := string(r)
	p := norm.NFC.PropertiesString(s)
	return p.BoundaryBefore() && p.BoundaryAfter() && norm.NFC.IsNormalString(s)
}

// InertRanges returns the maximal ranges of NFC-inert code points.
func InertRanges() []runeRange {
	inertOnce.Do(func() {
		start := rune(-1)
		for r := rune(0); r <= utf8.MaxRune+1; r++ {
			in := r <= utf8.MaxRune && nfcInert(r)
			if in && start < 0 {
				start = r
			}
			if !in && start >= 0 {
				inertRanges = append(inertRanges, runeRange{start, r - 1})
				start = -1
			}
		}
	})
	return inertRanges
}

func inertTerm(r *smt.Term) *smt.Term {
	c := ctx()
	res := c.F
	for _, rg := range InertRanges() {
		lo, hi := c.BV(32, uint64(rg.lo)), c.BV(32, uint64(rg.hi))
		var in *smt.Term
		if rg.lo == rg.hi {
			in = c.Eq(r, lo)
		} else {
			in = c.And(c.Cmp(smt.OpULe, lo, r), c.Cmp(smt.OpULe, r, hi))
		}
		res = c.Or(res, in)
	}
	return res
}

func init() {
	externals["(golang.org/x/text/unicode/norm.Form).String"] = func(fr *frame, a []value) value {
		form := norm.Form(concInt(a[0]))
		switch s := a[1].(type) {
		case string:
			return form.String(s)
		case symString:
			if form == norm.NFC {
				// all ASCII?
				c := ctx()
				ascii := c.T
				for _, b := range s.b {
					ascii = c.And(ascii, c.Cmp(smt.OpULt, intTerm(b), c.BV(8, 0x80)))
				}
				if truth(mkBool(ascii)) {
					return s
				}
				inert := c.T
				for i := 0; i < len(s.b); {
					r, n := decodeRuneSym(s.b[i:])
					if n == 1 {
						// ASCII, or an invalid byte (passed through unchanged by norm)
						if rr, ok := r.(int32); ok && rr == utf8.RuneError {
							i++
							continue
						}
					}
					inert = c.And(inert, inertTerm(intTerm(conv(types.Typ[types.Uint32], types.Typ[types.Int32], r))))
					i += n
				}
				if truth(mkBool(inert)) {
					return s
				}
			}
			return form.String(concString(s))
		}
		return notHandled{}
	}
	externals["(golang.org/x/text/unicode/norm.Form).IsNormalString"] = func(fr *frame, a []value) value {
		if s, ok := a[1].(string); ok {
			return norm.Form(concInt(a[0])).IsNormalString(s)
		}
		return notHandled{}
	}
}
