package interp

import "golang.org/x/tools/go/ssa"

// scheduler is the deterministic goroutine scheduler used by schedule-exploring
// harnesses (see sched_impl.go). nil when the harness is sequential.
type scheduler struct{}

var sched *scheduler

func (s *scheduler) spawn(fr *frame, instr *ssa.Go, fn value, args []value) {
	panic(engineAbort{"unsupported", "scheduler not implemented"})
}
func (s *scheduler) reset()                           {}
func (s *scheduler) syncOp(kind string, args []value) {}
func (s *scheduler) yield(kind string)                {}
