package interp

// Deterministic scheduler for interpreted goroutines (used by the C17 harnesses).
//
// Every `go` statement creates a coroutine backed by a real goroutine, but a
// baton guarantees that exactly one of them runs at any time. The running
// coroutine gives up the baton only at scheduling points: a lock acquisition
// (Mutex.Lock, RWMutex.Lock/RLock), WaitGroup.Wait, and its own termination.
// Which runnable coroutine continues is a symbolic choice handled by the path
// explorer, so that every interleaving of lock-delimited sections is explored
// by re-execution. Memory is sequentially consistent.
//
// Race detection is by ownership: heap cells and maps that exist when the first
// coroutine is spawned (and maps later stored into such cells) are shared. While
// more than one coroutine is alive, a store to a shared cell, or an update of a
// shared map, by a coroutine that holds no lock in write mode - or a lookup in a
// lock-protected shared map by a coroutine that holds no lock at all - is
// reported as an unsynchronised access.

import (
	"fmt"

	"golang.org/x/tools/go/ssa"

	"verif/engine/smt"
)

type coroutine struct {
	id      int
	resume  chan struct{}
	done    bool
	started bool
	fn      value
	args    []value
	heldW   int // locks held in write mode
	heldR   int // locks held in read mode
	waitFor func() bool
}

type mutexState struct {
	writer  *coroutine
	readers int
}

type scheduler struct {
	cos     []*coroutine
	cur     *coroutine
	mutexes map[*value]*mutexState
	wgs     map[*value]*int
	killed  bool
	abort   any // a panic raised inside a coroutine, re-raised on the main coroutine

	spawned     bool
	sharedCells map[*value]bool
	sharedMaps  map[*omap]bool
	lockedMaps  map[*omap]bool // shared maps that have been updated under a lock
	interp      *interpreter
}

var sched *scheduler

func newScheduler(i *interpreter) *scheduler {
	s := &scheduler{mutexes: map[*value]*mutexState{}, wgs: map[*value]*int{}, sharedCells: map[*value]bool{},
		sharedMaps: map[*omap]bool{}, lockedMaps: map[*omap]bool{}, interp: i}
	main := &coroutine{id: 0, resume: make(chan struct{}), started: true}
	s.cos = []*coroutine{main}
	s.cur = main
	return s
}

// reset is called at the start of every path.
func (s *scheduler) reset() {}

func (s *scheduler) alive() int {
	n := 0
	for _, c := range s.cos {
		if !c.done {
			n++
		}
	}
	return n
}

// snapshotShared marks everything reachable from the spawning frame's arguments
// and from package-level variables ... approximated by: every heap cell and map
// reachable from the new goroutine's function value and arguments.
func (s *scheduler) markShared(v value, depth int) {
	if depth > 40 {
		return
	}
	switch v := v.(type) {
	case *value:
		if v == nil || s.sharedCells[v] {
			return
		}
		s.sharedCells[v] = true
		s.markShared(*v, depth+1)
	case structure:
		for i := range v {
			s.sharedCells[&v[i]] = true
			s.markShared(v[i], depth+1)
		}
	case array:
		for i := range v {
			s.sharedCells[&v[i]] = true
			s.markShared(v[i], depth+1)
		}
	case []value:
		for i := range v {
			s.markShared(v[i], depth+1)
		}
	case iface:
		s.markShared(v.v, depth+1)
	case *omap:
		if v == nil || s.sharedMaps[v] {
			return
		}
		s.sharedMaps[v] = true
		for _, e := range v.ents {
			if !e.dead {
				s.markShared(e.key, depth+1)
				s.markShared(e.val, depth+1)
			}
		}
	case *closure:
		if v != nil {
			for _, b := range v.Env {
				s.markShared(b, depth+1)
			}
		}
	case tuple:
		for _, x := range v {
			s.markShared(x, depth+1)
		}
	}
}

func (s *scheduler) spawn(fr *frame, instr *ssa.Go, fn value, args []value) {
	co := &coroutine{id: len(s.cos), resume: make(chan struct{}), fn: fn, args: args}
	// what the new goroutine can reach is shared between it and its creator
	s.markShared(fn, 0)
	for _, a := range args {
		s.markShared(a, 0)
	}
	s.spawned = true
	s.cos = append(s.cos, co)
	go func() {
		<-co.resume
		co.started = true
		defer func() {
			if r := recover(); r != nil {
				if ea, ok := r.(engineAbort); !ok || ea.kind != "killed" {
					if s.abort == nil {
						s.abort = r
					}
				}
			}
			co.done = true
			s.finish(co)
		}()
		if s.killed {
			panic(engineAbort{"killed", ""})
		}
		call(s.interp, nil, instr.Pos(), fn, args)
	}()
}

// finish hands the baton on when a coroutine ends.
func (s *scheduler) finish(co *coroutine) {
	if s.killed || s.abort != nil {
		// wake the main coroutine so that it can unwind
		s.cos[0].resume <- struct{}{}
		return
	}
	next := s.pick()
	if next == nil {
		// nothing can run: the main coroutine must be blocked forever
		s.abort = engineAbort{"deadlock", "all goroutines are blocked"}
		s.cos[0].resume <- struct{}{}
		return
	}
	s.cur = next
	next.resume <- struct{}{}
}

func (s *scheduler) runnable() []*coroutine {
	var r []*coroutine
	for _, c := range s.cos {
		if c.done {
			continue
		}
		if c.waitFor != nil && !c.waitFor() {
			continue
		}
		r = append(r, c)
	}
	return r
}

// pick chooses the next coroutine to run among the runnable ones (a symbolic decision).
func (s *scheduler) pick() *coroutine {
	r := s.runnable()
	switch len(r) {
	case 0:
		return nil
	case 1:
		return r[0]
	}
	t := P.newVar("int", 64)
	c := P.ctx
	P.assume(c.And(c.Cmp(smt.OpSLe, c.BV(64, 0), t), c.Cmp(smt.OpSLt, t, c.BV(64, uint64(len(r))))))
	P.doms[t] = &domain{}
	for x := 0; x < len(r); x++ {
		P.doms[t].vals = append(P.doms[t].vals, uint64(x))
	}
	return r[int(P.concretize(t))]
}

// yield is a scheduling point of the running coroutine.
func (s *scheduler) yieldPoint() {
	me := s.cur
	if s.alive() <= 1 && me.waitFor == nil {
		return
	}
	next := s.pick()
	if next == nil {
		panic(engineAbort{"deadlock", "all goroutines are blocked"})
	}
	if next == me {
		return
	}
	s.cur = next
	next.resume <- struct{}{}
	<-me.resume
	if s.killed {
		panic(engineAbort{"killed", ""})
	}
	if me.id == 0 && s.abort != nil {
		a := s.abort
		s.abort = nil
		panic(a)
	}
}

func (s *scheduler) yield(kind string) {}

func (s *scheduler) mutex(p *value) *mutexState {
	m := s.mutexes[p]
	if m == nil {
		m = &mutexState{}
		s.mutexes[p] = m
	}
	return m
}

func (s *scheduler) syncOp(kind string, args []value) {
	p, _ := args[0].(*value)
	me := s.cur
	switch kind {
	case "Lock":
		m := s.mutex(p)
		me.waitFor = func() bool { return m.writer == nil && m.readers == 0 }
		s.yieldPoint()
		for !(m.writer == nil && m.readers == 0) {
			s.yieldPoint()
		}
		me.waitFor = nil
		m.writer = me
		me.heldW++
	case "Unlock":
		m := s.mutex(p)
		if m.writer != me {
			panic(targetPanic{"sync: unlock of unlocked mutex"})
		}
		m.writer = nil
		me.heldW--
	case "RLock":
		m := s.mutex(p)
		me.waitFor = func() bool { return m.writer == nil }
		s.yieldPoint()
		for m.writer != nil {
			s.yieldPoint()
		}
		me.waitFor = nil
		m.readers++
		me.heldR++
	case "RUnlock":
		m := s.mutex(p)
		if m.readers <= 0 {
			panic(targetPanic{"sync: RUnlock of unlocked RWMutex"})
		}
		m.readers--
		me.heldR--
	case "WGAdd":
		n := s.wgs[p]
		if n == nil {
			n = new(int)
			s.wgs[p] = n
		}
		*n += int(concInt(args[1]))
	case "WGDone":
		if n := s.wgs[p]; n != nil {
			*n--
		}
	case "WGWait":
		n := s.wgs[p]
		if n == nil {
			return
		}
		me.waitFor = func() bool { return *n <= 0 }
		for *n > 0 {
			s.yieldPoint()
		}
		me.waitFor = nil
	}
}

// ---- race checks, called from the interpreter on stores and map operations

func (s *scheduler) concurrent() bool { return s.spawned && s.alive() > 1 }

func (s *scheduler) raceViolation(what string) {
	P.res.Violations = append(P.res.Violations, Violation{ID: "unsynchronised-" + what, Kind: "assert",
		Msg: fmt.Sprintf("goroutine %d, in %v\n%s", s.cur.id, P.curFn, ""), Vector: P.vector(), Inputs: P.renderInputs()})
	panic(engineAbort{"done", "unsynchronised " + what})
}

func (s *scheduler) onStore(addr *value, v value) {
	if !s.sharedCells[addr] {
		return
	}
	// whatever is stored into shared memory becomes shared
	s.markShared(v, 0)
	if s.concurrent() && s.cur.heldW == 0 {
		s.raceViolation("write-to-shared-memory")
	}
}

func (s *scheduler) onMapWrite(m *omap) {
	if !s.sharedMaps[m] {
		return
	}
	if s.cur.heldW > 0 {
		s.lockedMaps[m] = true
	}
	if s.concurrent() && s.cur.heldW == 0 {
		s.raceViolation("update-of-shared-map")
	}
}

func (s *scheduler) onMapRead(m *omap) {
	if m == nil || !s.sharedMaps[m] || !s.lockedMaps[m] {
		return
	}
	if s.concurrent() && s.cur.heldW == 0 && s.cur.heldR == 0 {
		s.raceViolation("read-of-lock-protected-shared-map")
	}
}

// kill unblocks every parked coroutine so that its goroutine can exit.
func (s *scheduler) kill() {
	s.killed = true
	for _, c := range s.cos[1:] {
		if !c.done {
			c.resume <- struct{}{}
			<-s.cos[0].resume
		}
	}
}
