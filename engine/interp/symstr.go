package interp

import (
	"go/types"

	"verif/engine/smt"
)

// symStringIter ranges over a string with symbolic bytes, decoding UTF-8
// symbolically (forking on the byte classes exactly like utf8.DecodeRune).
type symStringIter struct {
	b []value
	i int
}

func (it *symStringIter) next() tuple {
	okv := make(tuple, 3)
	if it.i >= len(it.b) {
		okv[0] = false
		return okv
	}
	r, n := decodeRuneSym(it.b[it.i:])
	okv[0] = true
	okv[1] = it.i
	okv[2] = r
	it.i += n
	return okv
}

func u8(v value) *smt.Term { return intTerm(v) }

func inRange(t *smt.Term, lo, hi uint64) bool {
	c := ctx()
	return truth(mkBool(c.And(c.Cmp(smt.OpULe, c.BV(8, lo), t), c.Cmp(smt.OpULe, t, c.BV(8, hi)))))
}

// decodeRuneSym mirrors unicode/utf8.DecodeRune on possibly-symbolic bytes.
func decodeRuneSym(b []value) (value, int) {
	c := ctx()
	const runeError = int32(0xFFFD)
	b0 := u8(b[0])
	if truth(mkBool(c.Cmp(smt.OpULt, b0, c.BV(8, 0x80)))) {
		return mkInt(types.Int32, c.ZeroExt(b0, 32)), 1
	}
	ext := func(t *smt.Term) *smt.Term { return c.ZeroExt(t, 32) }
	and := func(t *smt.Term, m uint64) *smt.Term { return c.Bin(smt.OpBAnd, t, c.BV(32, m)) }
	shl := func(t *smt.Term, n uint64) *smt.Term { return c.Bin(smt.OpShl, t, c.BV(32, n)) }
	or := func(a, b *smt.Term) *smt.Term { return c.Bin(smt.OpBOr, a, b) }
	switch {
	case inRange(b0, 0xC2, 0xDF):
		if len(b) < 2 || !inRange(u8(b[1]), 0x80, 0xBF) {
			return runeError, 1
		}
		return mkInt(types.Int32, or(shl(and(ext(b0), 0x1F), 6), and(ext(u8(b[1])), 0x3F))), 2
	case inRange(b0, 0xE0, 0xEF):
		if len(b) < 2 {
			return runeError, 1
		}
		lo, hi := uint64(0x80), uint64(0xBF)
		if truth(mkBool(c.Eq(b0, c.BV(8, 0xE0)))) {
			lo = 0xA0
		} else if truth(mkBool(c.Eq(b0, c.BV(8, 0xED)))) {
			hi = 0x9F
		}
		if !inRange(u8(b[1]), lo, hi) {
			return runeError, 1
		}
		if len(b) < 3 || !inRange(u8(b[2]), 0x80, 0xBF) {
			return runeError, 1
		}
		return mkInt(types.Int32, or(or(shl(and(ext(b0), 0x0F), 12), shl(and(ext(u8(b[1])), 0x3F), 6)), and(ext(u8(b[2])), 0x3F))), 3
	case inRange(b0, 0xF0, 0xF4):
		if len(b) < 2 {
			return runeError, 1
		}
		lo, hi := uint64(0x80), uint64(0xBF)
		if truth(mkBool(c.Eq(b0, c.BV(8, 0xF0)))) {
			lo = 0x90
		} else if truth(mkBool(c.Eq(b0, c.BV(8, 0xF4)))) {
			hi = 0x8F
		}
		if !inRange(u8(b[1]), lo, hi) {
			return runeError, 1
		}
		if len(b) < 3 || !inRange(u8(b[2]), 0x80, 0xBF) {
			return runeError, 1
		}
		if len(b) < 4 || !inRange(u8(b[3]), 0x80, 0xBF) {
			return runeError, 1
		}
		return mkInt(types.Int32, or(or(or(shl(and(ext(b0), 0x07), 18), shl(and(ext(u8(b[1])), 0x3F), 12)), shl(and(ext(u8(b[2])), 0x3F), 6)), and(ext(u8(b[3])), 0x3F))), 4
	}
	return runeError, 1
}
