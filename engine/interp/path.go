package interp

// Path state, forking by re-execution (generational search), and the
// harness-facing intrinsics (package verif/engine/vf).

import (
	"fmt"
	"go/types"
	"sort"
	"strings"

	"golang.org/x/tools/go/ssa"

	"verif/engine/smt"
)

// engineAbort ends the current path from inside the interpreter. It is never
// delivered to the target program's recover().
type engineAbort struct{ kind, msg string }

func (e engineAbort) String() string { return e.kind + ": " + e.msg }

// Item is a unit of work: re-run the harness under Model; the first K
// decisions are already explored (their alternatives belong to other items).
type Item struct {
	Model  map[string]uint64 `json:"m"`
	K      int               `json:"k"`
	Hashes []uint64          `json:"h,omitempty"`
}

type Violation struct {
	ID     string   `json:"id"`
	Kind   string   `json:"kind"` // assert | panic | hang
	Msg    string   `json:"msg,omitempty"`
	Vector []uint64 `json:"vector"`
	Inputs string   `json:"inputs,omitempty"` // human-readable rendering of the inputs
}

type PathResult struct {
	Outcome    string      `json:"outcome"` // ok | infeasible | unsupported | budget | panic | nondet
	Msg        string      `json:"msg,omitempty"`
	Children   []Item      `json:"children,omitempty"`
	Violations []Violation `json:"violations,omitempty"`
	Reached    []string    `json:"reached,omitempty"`
	Covers     []string    `json:"covers,omitempty"`
	Obs        []string    `json:"obs,omitempty"`
	Vector     []uint64    `json:"vector,omitempty"`
	Inputs     string      `json:"inputs,omitempty"`
	Decisions  int         `json:"decisions"`
	Steps      int         `json:"steps"`
	Unknown    int         `json:"unknown,omitempty"`
	Fast       int         `json:"fast,omitempty"`
	Funcs      []string    `json:"funcs,omitempty"`
}

type inputRec struct {
	kind string
	t    *smt.Term
	lo   int64 // for ints: native replay needs nothing, kept for rendering
}

type obsRec struct {
	label string
	v     value
}

type path struct {
	ctx    *smt.Ctx
	solver *smt.Solver
	item   Item
	trace  []uint64
	inputs []inputRec
	obs    []obsRec
	res    PathResult
	steps  int
	funcs  map[*ssa.Function]bool
	curFn  *ssa.Function
	doms   map[*smt.Term]*domain
	fast   int

	MaxSteps     int
	MaxDecisions int
	Known        map[string]bool
	Params       map[string]int
	NoFast       bool
}

// P is the path being executed (one interpreter per process).
var P *path

func (p *path) vars() []*smt.Term { return p.ctx.Vars }

func (p *path) noteFn() {
	if p.curFn != nil {
		p.funcs[p.curFn] = true
	}
}

// ---------------------------------------------------------------------------
// Independent-variable fast path. For every input variable with a small
// domain the path keeps the exact set of values allowed by the constraints
// that mention ONLY that variable. As long as no constraint relates the
// variable to another one (multi == false) the path condition is a product,
// so feasibility of a condition over that single variable is decided by
// evaluating it on the domain, and a model is obtained by patching the current
// one. Everything else goes to the solver.

type domain struct {
	vals  []uint64
	multi bool
}

type varInfo struct {
	v *smt.Term // the single variable, when n == 1
	n int       // 0, 1, or 2 (= two or more)
}

func (p *path) varsOf(t *smt.Term) varInfo {
	v, n := t.VarsOf()
	return varInfo{v, n}
}

func (p *path) allVars(t *smt.Term, seen map[*smt.Term]bool, out *[]*smt.Term) {
	if seen[t] {
		return
	}
	seen[t] = true
	if t.Op == smt.OpBVVar || t.Op == smt.OpBoolVar {
		*out = append(*out, t)
		return
	}
	for _, x := range []*smt.Term{t.A, t.B, t.C} {
		if x != nil {
			p.allVars(x, seen, out)
		}
	}
}

// evalAt evaluates t with variable v set to x (other variables per the model).
func (p *path) evalAt(t, v *smt.Term, x uint64) uint64 {
	old := p.ctx.VarVal(v)
	p.ctx.SetVar(v, x)
	r := p.ctx.Eval(t)
	p.ctx.SetVar(v, old)
	return r
}

// solve decides PC ∧ extra and returns a model when satisfiable.
func (p *path) solve(extra ...*smt.Term) (smt.Result, map[string]uint64) {
	if len(extra) == 1 && !p.NoFast {
		c := extra[0]
		if vi := p.varsOf(c); vi.n == 1 {
			if d := p.doms[vi.v]; d != nil {
				for _, x := range d.vals {
					if p.evalAt(c, vi.v, x) != 0 {
						if d.multi {
							goto slow
						}
						p.fast++
						return smt.Sat, p.ctx.ModelMap(vi.v, x)
					}
				}
				p.fast++
				return smt.Unsat, nil
			}
		} else if vi.n == 0 {
			if p.ctx.Eval(c) != 0 {
				return smt.Sat, p.ctx.ModelMap(nil, 0)
			}
			return smt.Unsat, nil
		}
	}
slow:
	return p.solver.Check(p.vars(), extra...)
}

// addPC records that c now holds on the path.
func (p *path) addPC(c *smt.Term) {
	vi := p.varsOf(c)
	switch {
	case vi.n == 1:
		if d := p.doms[vi.v]; d != nil {
			keep := make([]uint64, 0, len(d.vals))
			for _, x := range d.vals {
				if p.evalAt(c, vi.v, x) != 0 {
					keep = append(keep, x)
				}
			}
			d.vals = keep
		}
	case vi.n >= 2:
		var vs []*smt.Term
		p.allVars(c, map[*smt.Term]bool{}, &vs)
		for _, v := range vs {
			if d := p.doms[v]; d != nil {
				d.multi = true
			}
		}
	}
	p.solver.Assert(c)
}

func (p *path) checkBudget(idx int) {
	if idx >= p.MaxDecisions {
		panic(engineAbort{"budget", fmt.Sprintf("more than %d symbolic decisions on one path", p.MaxDecisions)})
	}
}

// branch decides a symbolic condition under the path's model and spawns the
// other side as a work item when it is feasible.
func (p *path) branch(c *smt.Term) bool {
	switch c.Op {
	case smt.OpTrue:
		return true
	case smt.OpFalse:
		return false
	}
	v := p.ctx.Eval(c) != 0
	taken, other := c, p.ctx.Not(c)
	if !v {
		taken, other = other, taken
	}
	idx := len(p.trace)
	h := taken.H
	p.trace = append(p.trace, h)
	p.noteFn()
	if idx >= p.item.K {
		p.checkBudget(idx)
		r, model := p.solve(other)
		switch r {
		case smt.Sat:
			hs := make([]uint64, idx+1)
			copy(hs, p.trace[:idx])
			hs[idx] = other.H
			p.res.Children = append(p.res.Children, Item{Model: model, K: idx + 1, Hashes: hs})
		case smt.UnknownRes:
			p.res.Unknown++
		}
	} else if idx < len(p.item.Hashes) && p.item.Hashes[idx] != h {
		panic(engineAbort{"nondet", fmt.Sprintf("decision %d differs on re-execution (in %v)", idx, p.curFn)})
	}
	p.addPC(taken)
	return v
}

// concretize returns the model's value of t and spawns one work item for every
// other feasible value.
func (p *path) concretize(t *smt.Term) uint64 {
	if t.Op == smt.OpBVConst {
		return t.K
	}
	c := p.ctx
	v := c.Eval(t)
	eq := c.Eq(t, c.BV(t.W, v))
	idx := len(p.trace)
	p.trace = append(p.trace, eq.H)
	p.noteFn()
	if idx >= p.item.K {
		p.checkBudget(idx)
		excl := c.Not(eq)
		for n := 0; ; n++ {
			if n > 300 {
				panic(engineAbort{"unsupported", "concretisation with more than 300 feasible values"})
			}
			r, model := p.solve(excl)
			if r == smt.UnknownRes {
				p.res.Unknown++
				break
			}
			if r == smt.Unsat {
				break
			}
			save := c.Model
			c.SetModel(model)
			v2 := c.Eval(t)
			c.SetModel(save)
			eq2 := c.Eq(t, c.BV(t.W, v2))
			hs := make([]uint64, idx+1)
			copy(hs, p.trace[:idx])
			hs[idx] = eq2.H
			p.res.Children = append(p.res.Children, Item{Model: model, K: idx + 1, Hashes: hs})
			excl = c.And(excl, c.Not(eq2))
		}
	} else if idx < len(p.item.Hashes) && p.item.Hashes[idx] != eq.H {
		panic(engineAbort{"nondet", fmt.Sprintf("concretisation %d differs on re-execution", idx)})
	}
	p.addPC(eq)
	return v
}

// assume adds c to the path condition; the path ends if it is infeasible.
func (p *path) assume(c *smt.Term) {
	if c.Op == smt.OpTrue {
		return
	}
	if c.Op == smt.OpFalse {
		panic(engineAbort{"infeasible", "assume(false)"})
	}
	idx := len(p.trace)
	p.trace = append(p.trace, c.H^0x5a5a)
	if p.ctx.Eval(c) == 0 {
		if idx < p.item.K {
			panic(engineAbort{"nondet", "model of the item falsifies an assumption of its prefix"})
		}
		r, model := p.solve(c)
		switch r {
		case smt.Sat:
			p.ctx.SetModel(model)
		case smt.Unsat:
			panic(engineAbort{"infeasible", "assumption unsatisfiable"})
		default:
			p.res.Unknown++
			panic(engineAbort{"infeasible", "assumption: solver unknown"})
		}
	}
	p.addPC(c)
}

func (p *path) vector() []uint64 {
	v := make([]uint64, len(p.inputs))
	for i, in := range p.inputs {
		v[i] = p.ctx.Eval(in.t)
	}
	return v
}

func (p *path) renderInputs() string {
	var sb strings.Builder
	run := []byte{}
	flush := func() {
		if len(run) > 0 {
			fmt.Fprintf(&sb, "bytes%q ", run)
			run = run[:0]
		}
	}
	for _, in := range p.inputs {
		v := p.ctx.Eval(in.t)
		switch in.kind {
		case "byte":
			run = append(run, byte(v))
		case "bool":
			flush()
			fmt.Fprintf(&sb, "bool:%v ", v != 0)
		default:
			flush()
			fmt.Fprintf(&sb, "int:%d ", int64(v))
		}
	}
	flush()
	return strings.TrimSpace(sb.String())
}

// assert checks c on every input that follows this path.
func (p *path) assert(c *smt.Term, id string) {
	if c.Op == smt.OpTrue {
		return
	}
	if c.Op == smt.OpFalse {
		p.res.Violations = append(p.res.Violations, Violation{ID: id, Kind: "assert", Vector: p.vector(), Inputs: p.renderInputs()})
		panic(engineAbort{"done", "assertion failed on every input of the path"})
	}
	// property assertions are always discharged by the solver itself
	r, model := p.solver.Check(p.vars(), p.ctx.Not(c))
	switch r {
	case smt.Sat:
		save := p.ctx.Model
		p.ctx.SetModel(model)
		p.res.Violations = append(p.res.Violations, Violation{ID: id, Kind: "assert", Vector: p.vector(), Inputs: p.renderInputs()})
		p.ctx.SetModel(save)
	case smt.UnknownRes:
		p.res.Unknown++
	}
	p.assume(c)
}

// cover reports id when c is satisfiable on this path (used for KNOWN-FINDING lines).
func (p *path) cover(c *smt.Term, id string) {
	if c.Op == smt.OpFalse {
		return
	}
	if c.Op != smt.OpTrue {
		if p.ctx.Eval(c) == 0 {
			r, _ := p.solve(c)
			if r != smt.Sat {
				if r == smt.UnknownRes {
					p.res.Unknown++
				}
				return
			}
		}
	}
	p.res.Covers = append(p.res.Covers, id)
}

func (p *path) newVar(kind string, w int) *smt.Term {
	n := len(p.inputs)
	prefix := "v"
	if w == 0 {
		prefix = "p"
	}
	t := p.ctx.Var(w, fmt.Sprintf("%s%d_%d", prefix, n, w))
	p.inputs = append(p.inputs, inputRec{kind: kind, t: t})
	switch kind {
	case "byte":
		d := &domain{vals: make([]uint64, 256)}
		for i := range d.vals {
			d.vals[i] = uint64(i)
		}
		p.doms[t] = d
	case "bool":
		p.doms[t] = &domain{vals: []uint64{0, 1}}
	}
	return t
}

// freeze deep-copies a value for later evaluation under the final model.
func freeze(v value, depth int) value {
	if depth > 12 {
		return "<deep>"
	}
	switch v := v.(type) {
	case []value:
		r := make([]value, len(v))
		for i, x := range v {
			r[i] = freeze(x, depth+1)
		}
		return r
	case structure:
		r := make(structure, len(v))
		for i, x := range v {
			r[i] = freeze(x, depth+1)
		}
		return r
	case array:
		r := make(array, len(v))
		for i, x := range v {
			r[i] = freeze(x, depth+1)
		}
		return r
	case iface:
		return iface{v.t, freeze(v.v, depth+1)}
	case *value:
		if v == nil {
			return "<nil>"
		}
		return "<ptr>"
	case *omap, *closure, *ssa.Function, *ssa.Builtin, chan value:
		return fmt.Sprintf("<%T>", v)
	}
	return v
}

// render prints a frozen value under the current model, in a format that the
// native vf.Observe reproduces for the supported kinds (bool, ints, string, []byte, []string).
func render(v value) string {
	switch v := v.(type) {
	case iface:
		if v.t != nil {
			if sl, ok := v.t.Underlying().(*types.Slice); ok {
				if b, ok := sl.Elem().Underlying().(*types.Basic); ok && b.Kind() == types.Uint8 {
					if bs, ok := v.v.([]value); ok && len(bs) == 0 {
						return `""` // an empty []byte prints like the empty string, as in the native vf.Observe
					}
				}
			}
		}
		return render(v.v)
	case symInt:
		return fmt.Sprint(concreteInt(v.k, P.ctx.Eval(v.t)))
	case symBool:
		return fmt.Sprint(P.ctx.Eval(v.t) != 0)
	case symString:
		bs := make([]byte, len(v.b))
		for i, x := range v.b {
			bs[i] = byte(P.ctx.Eval(intTerm(x)))
		}
		return fmt.Sprintf("%q", string(bs))
	case string:
		return fmt.Sprintf("%q", v)
	case []value:
		// []byte prints as a quoted string
		allBytes := len(v) > 0
		for _, x := range v {
			k, ok := intKind(x)
			if !ok || k != types.Uint8 {
				allBytes = false
			}
		}
		if allBytes {
			bs := make([]byte, len(v))
			for i, x := range v {
				bs[i] = byte(P.ctx.Eval(intTerm(x)))
			}
			return fmt.Sprintf("%q", string(bs))
		}
		parts := make([]string, len(v))
		for i, x := range v {
			parts[i] = render(x)
		}
		return "[" + strings.Join(parts, " ") + "]"
	case structure:
		parts := make([]string, len(v))
		for i, x := range v {
			parts[i] = render(x)
		}
		return "{" + strings.Join(parts, " ") + "}"
	case array:
		parts := make([]string, len(v))
		for i, x := range v {
			parts[i] = render(x)
		}
		return "[" + strings.Join(parts, " ") + "]"
	case nil:
		return "<nil>"
	}
	return fmt.Sprint(v)
}

func (p *path) finish() {
	p.res.Decisions = len(p.trace)
	p.res.Steps = p.steps
	p.res.Fast = p.fast
	p.res.Vector = p.vector()
	p.res.Inputs = p.renderInputs()
	for _, o := range p.obs {
		p.res.Obs = append(p.res.Obs, o.label+"="+render(o.v))
	}
	for f := range p.funcs {
		p.res.Funcs = append(p.res.Funcs, f.String())
	}
	sort.Strings(p.res.Funcs)
}

// ---------------------------------------------------------------------------
// intrinsics: package verif/engine/vf

const vfPkg = "verif/engine/vf."

func init() {
	for name, fn := range map[string]externalFn{
		"Byte": func(fr *frame, args []value) value {
			return symInt{P.newVar("byte", 8), types.Uint8}
		},
		"Bool": func(fr *frame, args []value) value {
			return symBool{P.newVar("bool", 0)}
		},
		"Int": func(fr *frame, args []value) value {
			lo, hi := concInt(args[0]), concInt(args[1])
			if lo == hi {
				// still consumes an input slot so that native replay stays aligned
				P.inputs = append(P.inputs, inputRec{kind: "int", t: P.ctx.BV(64, uint64(lo))})
				return int(lo)
			}
			t := P.newVar("int", 64)
			if hi-lo < 4096 {
				d := &domain{}
				for x := lo; x <= hi; x++ {
					d.vals = append(d.vals, uint64(x))
				}
				P.doms[t] = d
			}
			c := P.ctx
			P.assume(c.And(c.Cmp(smt.OpSLe, c.BV(64, uint64(lo)), t), c.Cmp(smt.OpSLe, t, c.BV(64, uint64(hi)))))
			return symInt{t, types.Int}
		},
		"Bytes": func(fr *frame, args []value) value {
			n := int(concInt(args[0]))
			r := make([]value, n)
			for i := range r {
				r[i] = symInt{P.newVar("byte", 8), types.Uint8}
			}
			return r
		},
		"Str": func(fr *frame, args []value) value {
			n := int(concInt(args[0]))
			r := make([]value, n)
			for i := range r {
				r[i] = symInt{P.newVar("byte", 8), types.Uint8}
			}
			return mkString(r)
		},
		"Assume": func(fr *frame, args []value) value {
			P.assume(boolTerm(args[0]))
			return nil
		},
		"Assert": func(fr *frame, args []value) value {
			P.assert(boolTerm(args[0]), concString(args[1]))
			return nil
		},
		"Cover": func(fr *frame, args []value) value {
			P.cover(boolTerm(args[0]), concString(args[1]))
			return nil
		},
		"Reach": func(fr *frame, args []value) value {
			P.res.Reached = append(P.res.Reached, concString(args[0]))
			return nil
		},
		"Observe": func(fr *frame, args []value) value {
			P.obs = append(P.obs, obsRec{concString(args[0]), freeze(args[1], 0)})
			return nil
		},
		"Known": func(fr *frame, args []value) value {
			return P.Known[concString(args[0])]
		},
		"Param": func(fr *frame, args []value) value {
			if v, ok := P.Params[concString(args[0])]; ok {
				return v
			}
			return int(concInt(args[1]))
		},
		"Symbolic": func(fr *frame, args []value) value { return true },
		"Concretize": func(fr *frame, args []value) value {
			return int(concInt(args[0]))
		},
		"ConcretizeStr": func(fr *frame, args []value) value {
			return concString(args[0])
		},
		"IsConcrete": func(fr *frame, args []value) value {
			v := args[0]
			if i, ok := v.(iface); ok {
				v = i.v
			}
			return !isSym(v)
		},
	} {
		externals[vfPkg+name] = fn
	}
}
