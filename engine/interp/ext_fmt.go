package interp

// A model of package fmt over boxed interpreter values. The real fmt is
// reflection-driven and cannot be interpreted; this model supports the verbs
// used by hcl, cty and the harnesses, accepts symbolic strings/integers as
// operands, and calls the target program's Error/String/GoString methods.

import (
	"fmt"
	"go/types"
	"sort"
	"strconv"
	"strings"

	"golang.org/x/tools/go/ssa"
)

type fmtOut struct{ b []value }

func (o *fmtOut) str(s string) {
	for i := 0; i < len(s); i++ {
		o.b = append(o.b, s[i])
	}
}
func (o *fmtOut) val(v value) { o.b = append(o.b, strBytes(v)...) }

type fmtSpec struct {
	verb                          byte
	minus, plus, sharp, zero, spc bool
	width, prec                   int
	hasWidth, hasPrec             bool
}

func pkgNameQualifier(p *types.Package) string { return p.Name() }

func typeName(t types.Type) string {
	if t == nil {
		return "<nil>"
	}
	return types.TypeString(t, pkgNameQualifier)
}

func findMethod(i *interpreter, t types.Type, name string) *ssa.Function {
	if t == nil {
		return nil
	}
	switch t {
	case rtypeType:
		return nil
	case errorType:
		return nil
	}
	ms := i.prog.MethodSets.MethodSet(t)
	for k := 0; k < ms.Len(); k++ {
		sel := ms.At(k)
		if sel.Obj().Name() == name && sel.Obj().Exported() {
			sig := sel.Type().(*types.Signature)
			if sig.Params().Len() == 0 && sig.Results().Len() == 1 {
				if b, ok := sig.Results().At(0).Type().Underlying().(*types.Basic); ok && b.Kind() == types.String {
					return i.prog.MethodValue(sel)
				}
			}
		}
	}
	return nil
}

func padTo(o *fmtOut, piece []value, sp fmtSpec) {
	if !sp.hasWidth || len(piece) >= sp.width {
		o.b = append(o.b, piece...)
		return
	}
	n := sp.width - len(piece)
	padc := byte(' ')
	if sp.zero && !sp.minus {
		padc = '0'
	}
	if sp.minus {
		o.b = append(o.b, piece...)
		for k := 0; k < n; k++ {
			o.b = append(o.b, byte(' '))
		}
		return
	}
	if padc == '0' && len(piece) > 0 {
		if c, ok := piece[0].(byte); ok && (c == '-' || c == '+') {
			o.b = append(o.b, piece[0])
			piece = piece[1:]
		}
	}
	for k := 0; k < n; k++ {
		o.b = append(o.b, padc)
	}
	o.b = append(o.b, piece...)
}

func bytesOfString(s string) []value {
	r := make([]value, len(s))
	for i := 0; i < len(s); i++ {
		r[i] = s[i]
	}
	return r
}

// callStr calls an interpreted function of one argument returning string.
func callStrFn(fr *frame, pkg, name string, args ...value) value {
	p := fr.i.prog.ImportedPackage(pkg)
	if p == nil || p.Func(name) == nil {
		panic(engineAbort{"unsupported", "fmt model needs " + pkg + "." + name})
	}
	return call(fr.i, fr, 0, p.Func(name), args)
}

func (o *fmtOut) fmtString(fr *frame, s value, sp fmtSpec) {
	switch sp.verb {
	case 'q':
		var q value
		if cs, ok := s.(string); ok {
			if sp.sharp && strconv.CanBackquote(cs) {
				q = "`" + cs + "`"
			} else if sp.plus {
				q = strconv.QuoteToASCII(cs)
			} else {
				q = strconv.Quote(cs)
			}
		} else {
			q = callStrFn(fr, "strconv", "Quote", s)
		}
		padTo(o, strBytes(q), sp)
	case 'x', 'X':
		digits := "0123456789abcdef"
		if sp.verb == 'X' {
			digits = "0123456789ABCDEF"
		}
		var piece []value
		for _, b := range strBytes(s) {
			cb := byte(concInt(b))
			piece = append(piece, digits[cb>>4], digits[cb&15])
		}
		padTo(o, piece, sp)
	default: // s, v
		b := strBytes(s)
		if sp.hasPrec {
			// precision counts runes; only supported for concrete strings
			cs := concString(s)
			r := []rune(cs)
			if len(r) > sp.prec {
				cs = string(r[:sp.prec])
			}
			b = bytesOfString(cs)
		}
		padTo(o, b, sp)
	}
}

func (o *fmtOut) fmtInt(fr *frame, v value, k types.BasicKind, sp fmtSpec) {
	if _, sym := v.(symInt); sym {
		switch sp.verb {
		case 'd', 'v':
			var s value
			if kindSigned(k) {
				s = callStrFn(fr, "strconv", "FormatInt", conv(types.Typ[types.Int64], types.Typ[k], v), 10)
			} else {
				s = callStrFn(fr, "strconv", "FormatUint", conv(types.Typ[types.Uint64], types.Typ[k], v), 10)
			}
			padTo(o, strBytes(s), sp)
			return
		}
		v = concValue(v)
	}
	signed := kindSigned(k)
	i64 := asInt64c(v)
	u64 := uint64(i64)
	if !signed {
		switch k {
		case types.Uint8:
			u64 &= 0xff
		case types.Uint16:
			u64 &= 0xffff
		case types.Uint32:
			u64 &= 0xffffffff
		}
	}
	f := "%"
	if sp.plus {
		f += "+"
	}
	if sp.sharp {
		f += "#"
	}
	if sp.spc {
		f += " "
	}
	if sp.hasPrec {
		f += "." + strconv.Itoa(sp.prec)
	}
	verb := sp.verb
	if verb == 'v' {
		verb = 'd'
	}
	f += string(verb)
	var s string
	if signed {
		s = fmt.Sprintf(f, i64)
	} else {
		s = fmt.Sprintf(f, u64)
	}
	padTo(o, bytesOfString(s), sp)
}

func (o *fmtOut) badVerb(sp fmtSpec, t types.Type, v value) {
	o.str("%!" + string(sp.verb) + "(" + typeName(t) + "=")
	o.str(toString(v))
	o.str(")")
}

// findFormatter returns the target's Format(fmt.State, rune) method, if any.
func findFormatter(i *interpreter, t types.Type) *ssa.Function {
	if t == nil || t == rtypeType || t == errorType {
		return nil
	}
	ms := i.prog.MethodSets.MethodSet(t)
	for k := 0; k < ms.Len(); k++ {
		sel := ms.At(k)
		if sel.Obj().Name() != "Format" {
			continue
		}
		sig := sel.Type().(*types.Signature)
		if sig.Params().Len() == 2 && sig.Results().Len() == 0 && typeName(sig.Params().At(0).Type()) == "fmt.State" {
			return i.prog.MethodValue(sel)
		}
	}
	return nil
}

func setField(st structure, t *types.Struct, name string, v value) {
	for i := 0; i < t.NumFields(); i++ {
		if t.Field(i).Name() == name {
			st[i] = v
			return
		}
	}
}

func getField(st structure, t *types.Struct, name string) (value, types.Type) {
	for i := 0; i < t.NumFields(); i++ {
		if t.Field(i).Name() == name {
			return st[i], t.Field(i).Type()
		}
	}
	return nil, nil
}

// callFormatter runs the target's Format method against a real (interpreted) fmt.pp
// used as the fmt.State, and returns what it wrote.
func callFormatter(fr *frame, m *ssa.Function, recv value, sp fmtSpec) ([]value, bool) {
	fp := fr.i.prog.ImportedPackage("fmt")
	if fp == nil || fp.Type("pp") == nil {
		return nil, false
	}
	ppT := fp.Type("pp").Type()
	ppS := ppT.Underlying().(*types.Struct)
	var cell value = zero(ppT)
	pp := cell.(structure)
	fv, ft := getField(pp, ppS, "fmt")
	fS := ft.Underlying().(*types.Struct)
	fst := fv.(structure)
	flv, flt := getField(fst, fS, "fmtFlags")
	flS := flt.Underlying().(*types.Struct)
	fl := flv.(structure)
	setField(fl, flS, "widPresent", sp.hasWidth)
	setField(fl, flS, "precPresent", sp.hasPrec)
	setField(fl, flS, "minus", sp.minus)
	setField(fl, flS, "plus", sp.plus && sp.verb != 'v')
	setField(fl, flS, "plusV", sp.plus && sp.verb == 'v')
	setField(fl, flS, "sharp", sp.sharp && sp.verb != 'v')
	setField(fl, flS, "sharpV", sp.sharp && sp.verb == 'v')
	setField(fl, flS, "space", sp.spc)
	setField(fl, flS, "zero", sp.zero)
	setField(fst, fS, "wid", sp.width)
	setField(fst, fS, "prec", sp.prec)
	state := iface{types.NewPointer(ppT), &cell}
	call(fr.i, fr, 0, m, []value{recv, state, int32(sp.verb)})
	buf, _ := getField(cell.(structure), ppS, "buf")
	out, _ := buf.([]value)
	return out, true
}

// handleMethods implements fmt's Formatter / Error() / String() / GoString() protocol.
func (o *fmtOut) handleMethods(fr *frame, t types.Type, v value, sp fmtSpec) bool {
	if m := findFormatter(fr.i, t); m != nil {
		if p, ok := v.(*value); ok && p == nil {
			o.str("<nil>")
			return true
		}
		if out, ok := callFormatter(fr, m, v, sp); ok {
			o.b = append(o.b, out...)
			return true
		}
	}
	if t == errorType {
		// interpreter-made error: v is a string
		o.fmtString(fr, v, sp)
		return true
	}
	if sp.verb == 'v' && sp.sharp {
		if m := findMethod(fr.i, t, "GoString"); m != nil {
			o.val(call(fr.i, fr, 0, m, []value{v}))
			return true
		}
		return false
	}
	switch sp.verb {
	case 'v', 's', 'x', 'X', 'q':
		for _, name := range []string{"Error", "String"} {
			if m := findMethod(fr.i, t, name); m != nil {
				if p, ok := v.(*value); ok && p == nil {
					// nil receiver: fmt prints <nil> after recovering the panic
					if _, isPtrRecv := m.Signature.Recv().Type().(*types.Pointer); !isPtrRecv || true {
						o.str("<nil>")
						return true
					}
				}
				s := call(fr.i, fr, 0, m, []value{v})
				o.fmtString(fr, s, sp)
				return true
			}
		}
	}
	return false
}

func (o *fmtOut) printValue(fr *frame, t types.Type, v value, sp fmtSpec, depth int) {
	if t == nil {
		switch sp.verb {
		case 'T', 'v':
			o.str("<nil>")
		default:
			o.str("%!" + string(sp.verb) + "(<nil>)")
		}
		return
	}
	if sp.verb == 'T' {
		o.str(typeName(t))
		return
	}
	if depth > 0 || true {
		if o.handleMethods(fr, t, v, sp) {
			return
		}
	}
	if rt, ok := v.(rtype); ok {
		o.str(typeName(rt.t))
		return
	}
	switch ut := t.Underlying().(type) {
	case *types.Basic:
		switch {
		case ut.Info()&types.IsString != 0:
			switch sp.verb {
			case 's', 'v', 'q', 'x', 'X':
				if sp.verb == 'v' && sp.sharp {
					sp.verb = 'q'
					sp.sharp = false
				}
				o.fmtString(fr, v, sp)
			default:
				o.badVerb(sp, t, v)
			}
		case ut.Info()&types.IsBoolean != 0:
			b := truth(v)
			padTo(o, bytesOfString(strconv.FormatBool(b)), sp)
		case ut.Info()&types.IsInteger != 0:
			switch sp.verb {
			case 'c':
				padTo(o, bytesOfString(string(rune(concInt(v)))), sp)
			case 'q':
				padTo(o, bytesOfString(strconv.QuoteRune(rune(concInt(v)))), sp)
			case 'U':
				padTo(o, bytesOfString(fmt.Sprintf("%U", rune(concInt(v)))), sp)
			case 'd', 'v', 'x', 'X', 'o', 'b', 'O':
				o.fmtInt(fr, v, ut.Kind(), sp)
			default:
				o.badVerb(sp, t, v)
			}
		case ut.Info()&types.IsFloat != 0:
			f := "%"
			if sp.plus {
				f += "+"
			}
			if sp.hasPrec {
				f += "." + strconv.Itoa(sp.prec)
			}
			verb := sp.verb
			if verb == 'v' {
				verb = 'g'
			}
			f += string(verb)
			var s string
			switch x := v.(type) {
			case float64:
				s = fmt.Sprintf(f, x)
			case float32:
				s = fmt.Sprintf(f, x)
			}
			padTo(o, bytesOfString(s), sp)
		case ut.Kind() == types.UnsafePointer:
			o.str("0xc000000000")
		default:
			o.str(fmt.Sprint(v))
		}
	case *types.Pointer:
		p, _ := v.(*value)
		if p == nil {
			o.str("<nil>")
			return
		}
		if depth == 0 {
			switch ut.Elem().Underlying().(type) {
			case *types.Struct, *types.Array, *types.Slice, *types.Map:
				if sp.verb == 'v' || sp.verb == 's' {
					o.str("&")
					o.printValue(fr, ut.Elem(), *p, sp, depth+1)
					return
				}
			}
		}
		o.str("0xc000010000")
	case *types.Interface:
		iv := v.(iface)
		if iv.t == nil {
			o.str("<nil>")
			return
		}
		o.printValue(fr, iv.t, iv.v, sp, depth+1)
	case *types.Slice:
		s, _ := v.([]value)
		if b, ok := ut.Elem().Underlying().(*types.Basic); ok && b.Kind() == types.Uint8 {
			switch sp.verb {
			case 's', 'q', 'x', 'X':
				o.fmtString(fr, mkString(s), sp)
				return
			}
		}
		if sp.verb == 'v' && sp.sharp {
			o.str(typeName(t))
			if s == nil {
				o.str("(nil)")
				return
			}
			o.str("{")
			for i, e := range s {
				if i > 0 {
					o.str(", ")
				}
				o.printValue(fr, ut.Elem(), e, sp, depth+1)
			}
			o.str("}")
			return
		}
		o.str("[")
		for i, e := range s {
			if i > 0 {
				o.str(" ")
			}
			o.printValue(fr, ut.Elem(), e, sp, depth+1)
		}
		o.str("]")
	case *types.Array:
		a := v.(array)
		o.str("[")
		for i, e := range a {
			if i > 0 {
				o.str(" ")
			}
			o.printValue(fr, ut.Elem(), e, sp, depth+1)
		}
		o.str("]")
	case *types.Struct:
		st := v.(structure)
		if sp.verb == 'v' && sp.sharp {
			o.str(typeName(t))
		}
		o.str("{")
		for i := 0; i < ut.NumFields(); i++ {
			if i > 0 {
				if sp.sharp {
					o.str(", ")
				} else {
					o.str(" ")
				}
			}
			if sp.plus || sp.sharp {
				o.str(ut.Field(i).Name() + ":")
			}
			o.printValue(fr, ut.Field(i).Type(), st[i], sp, depth+1)
		}
		o.str("}")
	case *types.Map:
		m, _ := v.(*omap)
		if sp.verb == 'v' && sp.sharp {
			o.str(typeName(t))
			if m == nil {
				o.str("(nil)")
				return
			}
			o.str("{")
		} else {
			o.str("map[")
		}
		type kv struct {
			ks   string
			k, v value
		}
		var kvs []kv
		it := m.iter()
		for {
			tu := it.next()
			if !tu[0].(bool) {
				break
			}
			var ko fmtOut
			ko.printValue(fr, ut.Key(), tu[1], sp, depth+1)
			kvs = append(kvs, kv{concString(mkString(ko.b)), tu[1], tu[2]})
		}
		sort.Slice(kvs, func(i, j int) bool { return kvs[i].ks < kvs[j].ks })
		for i, e := range kvs {
			if i > 0 {
				if sp.sharp {
					o.str(", ")
				} else {
					o.str(" ")
				}
			}
			o.str(e.ks)
			o.str(":")
			o.printValue(fr, ut.Elem(), e.v, sp, depth+1)
		}
		if sp.verb == 'v' && sp.sharp {
			o.str("}")
		} else {
			o.str("]")
		}
	case *types.Signature, *types.Chan:
		o.str("0xc000020000")
	default:
		o.str(fmt.Sprintf("<%s>", typeName(t)))
	}
}

// sprintf formats according to a concrete format string.
func sprintf(fr *frame, format string, args []value) (out []value, wrapped value) {
	var o fmtOut
	argi := 0
	n := len(format)
	for i := 0; i < n; {
		c := format[i]
		if c != '%' {
			o.b = append(o.b, c)
			i++
			continue
		}
		i++
		var sp fmtSpec
	flags:
		for ; i < n; i++ {
			switch format[i] {
			case '-':
				sp.minus = true
			case '+':
				sp.plus = true
			case '#':
				sp.sharp = true
			case '0':
				sp.zero = true
			case ' ':
				sp.spc = true
			default:
				break flags
			}
		}
		if i < n && format[i] == '*' {
			if argi < len(args) {
				sp.width = int(concInt(args[argi].(iface).v))
				sp.hasWidth = true
				argi++
			}
			i++
		} else {
			for i < n && format[i] >= '0' && format[i] <= '9' {
				sp.width = sp.width*10 + int(format[i]-'0')
				sp.hasWidth = true
				i++
			}
		}
		if i < n && format[i] == '.' {
			i++
			sp.hasPrec = true
			for i < n && format[i] >= '0' && format[i] <= '9' {
				sp.prec = sp.prec*10 + int(format[i]-'0')
				i++
			}
		}
		if i >= n {
			o.str("%!(NOVERB)")
			break
		}
		sp.verb = format[i]
		i++
		if sp.verb == '%' {
			o.b = append(o.b, byte('%'))
			continue
		}
		if argi >= len(args) {
			o.str("%!" + string(sp.verb) + "(MISSING)")
			continue
		}
		a := args[argi].(iface)
		argi++
		if sp.verb == 'w' {
			wrapped = a
			sp.verb = 'v'
		}
		o.printValue(fr, a.t, a.v, sp, 0)
	}
	if argi < len(args) {
		o.str("%!(EXTRA ")
		for k := argi; k < len(args); k++ {
			if k > argi {
				o.str(", ")
			}
			a := args[k].(iface)
			o.str(typeName(a.t) + "=")
			o.printValue(fr, a.t, a.v, fmtSpec{verb: 'v'}, 0)
		}
		o.str(")")
	}
	return o.b, wrapped
}

func sprint(fr *frame, args []value, ln bool) []value {
	var o fmtOut
	prevString := false
	for k, a := range args {
		ai := a.(iface)
		isString := false
		if ai.t != nil {
			if b, ok := ai.t.Underlying().(*types.Basic); ok && b.Info()&types.IsString != 0 {
				isString = true
			}
		}
		if k > 0 && (ln || (!isString && !prevString)) {
			o.str(" ")
		}
		o.printValue(fr, ai.t, ai.v, fmtSpec{verb: 'v'}, 0)
		prevString = isString
	}
	if ln {
		o.str("\n")
	}
	return o.b
}

func makeError(fr *frame, msg value) value {
	ep := fr.i.prog.ImportedPackage("errors")
	if ep == nil {
		return iface{errorType, msg}
	}
	t := ep.Type("errorString")
	if t == nil {
		return iface{errorType, msg}
	}
	var cell value = structure{msg}
	return iface{types.NewPointer(t.Type()), &cell}
}

func writeTo(fr *frame, w value, b []value) value {
	wi := w.(iface)
	if wi.t == nil {
		panic(runtimeError("invalid memory address or nil pointer dereference"))
	}
	ms := fr.i.prog.MethodSets.MethodSet(wi.t)
	for k := 0; k < ms.Len(); k++ {
		if ms.At(k).Obj().Name() == "Write" {
			fn := fr.i.prog.MethodValue(ms.At(k))
			buf := make([]value, len(b))
			copy(buf, b)
			return call(fr.i, fr, 0, fn, []value{wi.v, buf})
		}
	}
	panic(engineAbort{"unsupported", "Fprintf to a writer without Write"})
}

func init() {
	fmtArgs := func(v value) []value {
		if v == nil {
			return nil
		}
		return v.([]value)
	}
	for name, fn := range map[string]externalFn{
		"fmt.Sprintf": func(fr *frame, a []value) value {
			b, _ := sprintf(fr, concString(a[0]), fmtArgs(a[1]))
			return mkString(b)
		},
		"fmt.Errorf": func(fr *frame, a []value) value {
			b, wrapped := sprintf(fr, concString(a[0]), fmtArgs(a[1]))
			msg := mkString(b)
			if wrapped != nil {
				fp := fr.i.prog.ImportedPackage("fmt")
				if t := fp.Type("wrapError"); t != nil {
					var cell value = structure{msg, wrapped}
					return iface{types.NewPointer(t.Type()), &cell}
				}
			}
			return makeError(fr, msg)
		},
		"fmt.Sprint":   func(fr *frame, a []value) value { return mkString(sprint(fr, fmtArgs(a[0]), false)) },
		"fmt.Sprintln": func(fr *frame, a []value) value { return mkString(sprint(fr, fmtArgs(a[0]), true)) },
		"fmt.Fprintf": func(fr *frame, a []value) value {
			b, _ := sprintf(fr, concString(a[1]), fmtArgs(a[2]))
			return writeTo(fr, a[0], b)
		},
		"fmt.Fprint":   func(fr *frame, a []value) value { return writeTo(fr, a[0], sprint(fr, fmtArgs(a[1]), false)) },
		"fmt.Fprintln": func(fr *frame, a []value) value { return writeTo(fr, a[0], sprint(fr, fmtArgs(a[1]), true)) },
		"fmt.Printf":   func(fr *frame, a []value) value { return tuple{0, iface{}} },
		"fmt.Println":  func(fr *frame, a []value) value { return tuple{0, iface{}} },
		"fmt.Print":    func(fr *frame, a []value) value { return tuple{0, iface{}} },
		"fmt.Appendf": func(fr *frame, a []value) value {
			b, _ := sprintf(fr, concString(a[1]), fmtArgs(a[2]))
			return append(a[0].([]value), b...)
		},
	} {
		externals[name] = fn
	}
	_ = strings.Join
}
