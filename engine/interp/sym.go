package interp

// Symbolic scalar layer: symInt / symBool / symString values whose payload is
// an SMT term, and the operations of the interpreter lifted to them.

import (
	"fmt"
	"go/token"
	"go/types"

	"verif/engine/smt"
)

type symInt struct {
	t *smt.Term
	k types.BasicKind // Int ... Uintptr
}

type symBool struct{ t *smt.Term }

// symString is a string with at least one symbolic byte. Its length is concrete.
// Elements are uint8 or symInt{k: Uint8}.
type symString struct{ b []value }

// symPtr is the address of cells[idx] for a symbolic idx (scalar cells only).
type symPtr struct {
	cells []value
	idx   *smt.Term // 64-bit, already bounds-checked
}

func kindWidth(k types.BasicKind) int {
	switch k {
	case types.Int8, types.Uint8:
		return 8
	case types.Int16, types.Uint16:
		return 16
	case types.Int32, types.Uint32:
		return 32
	}
	return 64
}

func kindSigned(k types.BasicKind) bool {
	switch k {
	case types.Int, types.Int8, types.Int16, types.Int32, types.Int64:
		return true
	}
	return false
}

func intKind(v value) (types.BasicKind, bool) {
	switch v := v.(type) {
	case int:
		return types.Int, true
	case int8:
		return types.Int8, true
	case int16:
		return types.Int16, true
	case int32:
		return types.Int32, true
	case int64:
		return types.Int64, true
	case uint:
		return types.Uint, true
	case uint8:
		return types.Uint8, true
	case uint16:
		return types.Uint16, true
	case uint32:
		return types.Uint32, true
	case uint64:
		return types.Uint64, true
	case uintptr:
		return types.Uintptr, true
	case symInt:
		return v.k, true
	}
	return 0, false
}

func isSym(v value) bool {
	switch v.(type) {
	case symInt, symBool, symString:
		return true
	}
	return false
}

func ctx() *smt.Ctx { return P.ctx }

// intTerm returns the term of an integer value (concrete or symbolic).
func intTerm(v value) *smt.Term {
	if s, ok := v.(symInt); ok {
		return s.t
	}
	k, ok := intKind(v)
	if !ok {
		panic(fmt.Sprintf("intTerm: not an integer: %T", v))
	}
	return ctx().BV(kindWidth(k), uint64(asInt64(v)))
}

func boolTerm(v value) *smt.Term {
	switch v := v.(type) {
	case bool:
		return ctx().Bool(v)
	case symBool:
		return v.t
	}
	panic(fmt.Sprintf("boolTerm: not a bool: %T", v))
}

func concreteInt(k types.BasicKind, u uint64) value {
	switch k {
	case types.Int:
		return int(u)
	case types.Int8:
		return int8(u)
	case types.Int16:
		return int16(u)
	case types.Int32:
		return int32(u)
	case types.Int64:
		return int64(u)
	case types.Uint:
		return uint(u)
	case types.Uint8:
		return uint8(u)
	case types.Uint16:
		return uint16(u)
	case types.Uint32:
		return uint32(u)
	case types.Uint64:
		return uint64(u)
	case types.Uintptr:
		return uintptr(u)
	}
	panic("concreteInt: bad kind")
}

func mkInt(k types.BasicKind, t *smt.Term) value {
	if t.Op == smt.OpBVConst {
		return concreteInt(k, t.K)
	}
	if t.W != kindWidth(k) {
		panic(fmt.Sprintf("mkInt: width %d for kind %v", t.W, k))
	}
	return symInt{t, k}
}

func mkBool(t *smt.Term) value {
	switch t.Op {
	case smt.OpTrue:
		return true
	case smt.OpFalse:
		return false
	}
	return symBool{t}
}

// mkString builds a string value from bytes, normalising to a native string
// when every byte is concrete.
func mkString(b []value) value {
	for _, x := range b {
		if _, ok := x.(symInt); ok {
			c := make([]value, len(b))
			copy(c, b)
			return symString{c}
		}
	}
	bs := make([]byte, len(b))
	for i, x := range b {
		bs[i] = x.(byte)
	}
	return string(bs)
}

// strBytes returns the bytes of a string value.
func strBytes(v value) []value {
	switch v := v.(type) {
	case string:
		r := make([]value, len(v))
		for i := 0; i < len(v); i++ {
			r[i] = v[i]
		}
		return r
	case symString:
		return v.b
	}
	panic(fmt.Sprintf("strBytes: %T", v))
}

func strLen(v value) int {
	switch v := v.(type) {
	case string:
		return len(v)
	case symString:
		return len(v.b)
	}
	panic(fmt.Sprintf("strLen: %T", v))
}

func notV(v value) value {
	switch v := v.(type) {
	case bool:
		return !v
	case symBool:
		return mkBool(ctx().Not(v.t))
	}
	panic("notV")
}

func andV(a, b value) value {
	if x, ok := a.(bool); ok {
		if !x {
			return false
		}
		return b
	}
	if y, ok := b.(bool); ok {
		if !y {
			return false
		}
		return a
	}
	return mkBool(ctx().And(boolTerm(a), boolTerm(b)))
}

func orV(a, b value) value {
	return notV(andV(notV(a), notV(b)))
}

// truth turns a (possibly symbolic) boolean into a concrete one, forking.
func truth(v value) bool {
	switch v := v.(type) {
	case bool:
		return v
	case symBool:
		return P.branch(v.t)
	}
	panic(fmt.Sprintf("truth: %T", v))
}

// concInt returns a concrete int64 for an integer value, forking over all
// feasible values when it is symbolic.
func concInt(v value) int64 {
	s, ok := v.(symInt)
	if !ok {
		return asInt64c(v)
	}
	u := P.concretize(s.t)
	if kindSigned(s.k) {
		return asInt64c(concreteInt(s.k, u))
	}
	return int64(u)
}

// concValue concretises a scalar (int/bool/string) value; other values are returned as is.
func concValue(v value) value {
	switch s := v.(type) {
	case symInt:
		return concreteInt(s.k, P.concretize(s.t))
	case symBool:
		return truth(s)
	case symString:
		bs := make([]byte, len(s.b))
		for i, x := range s.b {
			bs[i] = concValue(x).(byte)
		}
		return string(bs)
	}
	return v
}

func concString(v value) string { return concValue(v).(string) }

// eqScalar compares two ints / bools / strings symbolically.
func eqScalar(x, y value) value {
	switch x.(type) {
	case symBool, bool:
		return mkBool(ctx().Eq(boolTerm(x), boolTerm(y)))
	case symString, string:
		return eqString(x, y)
	}
	return mkBool(ctx().Eq(intTerm(x), intTerm(y)))
}

func eqString(x, y value) value {
	if xs, ok := x.(string); ok {
		if ys, ok := y.(string); ok {
			return xs == ys
		}
	}
	if strLen(x) != strLen(y) {
		return false
	}
	xb, yb := strBytes(x), strBytes(y)
	// cheap refutation on concrete positions first
	for i := range xb {
		if a, ok := xb[i].(byte); ok {
			if b, ok := yb[i].(byte); ok && a != b {
				return false
			}
		}
	}
	var r value = true
	for i := range xb {
		r = andV(r, mkBool(ctx().Eq(intTerm(xb[i]), intTerm(yb[i]))))
	}
	return r
}

// lessString returns x < y (lexicographic) as a value.
func lessString(x, y value) value {
	xb, yb := strBytes(x), strBytes(y)
	n := len(xb)
	if len(yb) < n {
		n = len(yb)
	}
	// result if all first n equal:
	var r value = len(xb) < len(yb)
	c := ctx()
	for i := n - 1; i >= 0; i-- {
		a, b := intTerm(xb[i]), intTerm(yb[i])
		lt := c.Cmp(smt.OpULt, a, b)
		eq := c.Eq(a, b)
		// lt || (eq && r)
		r = mkBool(c.Or(lt, c.And(eq, boolTerm(r))))
	}
	return r
}

func symBinop(op token.Token, t types.Type, x, y value) value {
	c := ctx()
	// strings
	switch x.(type) {
	case symString, string:
		switch op {
		case token.ADD:
			xb, yb := strBytes(x), strBytes(y)
			r := make([]value, 0, len(xb)+len(yb))
			r = append(r, xb...)
			r = append(r, yb...)
			return mkString(r)
		case token.EQL:
			return eqString(x, y)
		case token.NEQ:
			return notV(eqString(x, y))
		case token.LSS:
			return lessString(x, y)
		case token.GTR:
			return lessString(y, x)
		case token.LEQ:
			return notV(lessString(y, x))
		case token.GEQ:
			return notV(lessString(x, y))
		}
		panic(fmt.Sprintf("symBinop: bad string op %s", op))
	case symBool, bool:
		switch op {
		case token.EQL:
			return mkBool(c.Eq(boolTerm(x), boolTerm(y)))
		case token.NEQ:
			return mkBool(c.Not(c.Eq(boolTerm(x), boolTerm(y))))
		case token.AND: // not produced by go/ssa for bools, but harmless
			return andV(x, y)
		case token.OR:
			return orV(x, y)
		}
		panic(fmt.Sprintf("symBinop: bad bool op %s", op))
	}
	k, ok := intKind(x)
	if !ok {
		// e.g. float compared with ... cannot be symbolic
		panic(engineAbort{"unsupported", fmt.Sprintf("symbolic binop %s on %T,%T", op, x, y)})
	}
	w := kindWidth(k)
	sg := kindSigned(k)
	a := intTerm(x)
	switch op {
	case token.SHL, token.SHR:
		ky, _ := intKind(y)
		b := intTerm(y)
		if kindSigned(ky) {
			if truth(mkBool(c.Cmp(smt.OpSLt, b, c.BV(b.W, 0)))) {
				panic("negative shift amount")
			}
		}
		// bring the amount to x's width, saturating
		var amt *smt.Term
		if b.W > w {
			big := c.Cmp(smt.OpULe, c.BV(b.W, uint64(w)), b)
			amt = c.Ite(big, c.BV(w, uint64(w)), c.Extract(b, w-1, 0))
		} else {
			amt = c.ZeroExt(b, w)
		}
		switch {
		case op == token.SHL:
			return mkInt(k, c.Bin(smt.OpShl, a, amt))
		case sg:
			return mkInt(k, c.Bin(smt.OpAShr, a, amt))
		default:
			return mkInt(k, c.Bin(smt.OpLShr, a, amt))
		}
	}
	b := intTerm(y)
	if b.W != a.W {
		panic(fmt.Sprintf("symBinop %s: operand widths %d/%d (%T, %T)", op, a.W, b.W, x, y))
	}
	switch op {
	case token.ADD:
		return mkInt(k, c.Bin(smt.OpAdd, a, b))
	case token.SUB:
		return mkInt(k, c.Bin(smt.OpSub, a, b))
	case token.MUL:
		return mkInt(k, c.Bin(smt.OpMul, a, b))
	case token.QUO, token.REM:
		if truth(mkBool(c.Eq(b, c.BV(w, 0)))) {
			panic(runtimeError("integer divide by zero"))
		}
		var o smt.Op
		switch {
		case op == token.QUO && sg:
			o = smt.OpSDiv
		case op == token.QUO:
			o = smt.OpUDiv
		case sg:
			o = smt.OpSRem
		default:
			o = smt.OpURem
		}
		return mkInt(k, c.Bin(o, a, b))
	case token.AND:
		return mkInt(k, c.Bin(smt.OpBAnd, a, b))
	case token.OR:
		return mkInt(k, c.Bin(smt.OpBOr, a, b))
	case token.XOR:
		return mkInt(k, c.Bin(smt.OpBXor, a, b))
	case token.AND_NOT:
		return mkInt(k, c.Bin(smt.OpBAnd, a, c.Un(smt.OpBNot, b)))
	case token.EQL:
		return mkBool(c.Eq(a, b))
	case token.NEQ:
		return mkBool(c.Not(c.Eq(a, b)))
	case token.LSS:
		if sg {
			return mkBool(c.Cmp(smt.OpSLt, a, b))
		}
		return mkBool(c.Cmp(smt.OpULt, a, b))
	case token.LEQ:
		if sg {
			return mkBool(c.Cmp(smt.OpSLe, a, b))
		}
		return mkBool(c.Cmp(smt.OpULe, a, b))
	case token.GTR:
		if sg {
			return mkBool(c.Cmp(smt.OpSLt, b, a))
		}
		return mkBool(c.Cmp(smt.OpULt, b, a))
	case token.GEQ:
		if sg {
			return mkBool(c.Cmp(smt.OpSLe, b, a))
		}
		return mkBool(c.Cmp(smt.OpULe, b, a))
	}
	panic(fmt.Sprintf("symBinop: bad op %s", op))
}

type runtimeError string

func (e runtimeError) Error() string { return "runtime error: " + string(e) }
func (e runtimeError) RuntimeError() {}

func symUnop(op token.Token, x value) value {
	c := ctx()
	switch x := x.(type) {
	case symBool:
		if op == token.NOT {
			return mkBool(c.Not(x.t))
		}
	case symInt:
		switch op {
		case token.SUB:
			return mkInt(x.k, c.Un(smt.OpNeg, x.t))
		case token.XOR:
			return mkInt(x.k, c.Un(smt.OpBNot, x.t))
		}
	}
	panic(fmt.Sprintf("symUnop: %s %T", op, x))
}

// symConvInt converts a symbolic integer to another integer kind.
func symConvInt(dst types.BasicKind, x symInt) value {
	c := ctx()
	w := kindWidth(dst)
	if w <= x.t.W {
		return mkInt(dst, c.Extract(x.t, w-1, 0))
	}
	if kindSigned(x.k) {
		return mkInt(dst, c.SignExt(x.t, w))
	}
	return mkInt(dst, c.ZeroExt(x.t, w))
}

// equalsV is Go's == for type t on possibly-symbolic values.
func equalsV(t types.Type, x, y value) value {
	switch x := x.(type) {
	case symInt, symBool:
		return eqScalar(x, y)
	case symString:
		return eqString(x, y)
	case string:
		if _, ok := y.(symString); ok {
			return eqString(x, y)
		}
		return x == y.(string)
	case bool:
		if _, ok := y.(symBool); ok {
			return eqScalar(x, y)
		}
		return x == y.(bool)
	case structure:
		ys := y.(structure)
		if isReflectValueType(t) {
			return reflectValueEq(x, ys)
		}
		tStruct := t.Underlying().(*types.Struct)
		var r value = true
		for i, n := 0, tStruct.NumFields(); i < n; i++ {
			if f := tStruct.Field(i); f.Name() != "_" {
				r = andV(r, equalsV(f.Type(), x[i], ys[i]))
				if r == false {
					return false
				}
			}
		}
		return r
	case array:
		ya := y.(array)
		tElt := t.Underlying().(*types.Array).Elem()
		var r value = true
		for i, xi := range x {
			r = andV(r, equalsV(tElt, xi, ya[i]))
			if r == false {
				return false
			}
		}
		return r
	case iface:
		yi := y.(iface)
		if !sameType(x.t, yi.t) {
			return false
		}
		if x.t == nil {
			return true
		}
		return equalsV(x.t, x.v, yi.v)
	case rtype:
		return x.eq(t, y)
	case *value:
		return x == y.(*value)
	case chan value:
		return x == y.(chan value)
	case float32:
		return x == y.(float32)
	case float64:
		return x == y.(float64)
	case complex64:
		return x == y.(complex64)
	case complex128:
		return x == y.(complex128)
	case symPtr:
		panic(engineAbort{"unsupported", "comparison of symbolic pointer"})
	}
	if _, ok := intKind(x); ok {
		if _, ok := y.(symInt); ok {
			return eqScalar(x, y)
		}
		return asInt64c(x) == asInt64c(y) // same dynamic type in well-typed programs
	}
	// map, func, slice: only reachable through interface comparison
	panic(fmt.Sprintf("comparing uncomparable type %s (%T)", t, x))
}

// asInt64c is asInt64 for concrete values only.
func asInt64c(x value) int64 {
	switch x := x.(type) {
	case int:
		return int64(x)
	case int8:
		return int64(x)
	case int16:
		return int64(x)
	case int32:
		return int64(x)
	case int64:
		return x
	case uint:
		return int64(x)
	case uint8:
		return int64(x)
	case uint16:
		return int64(x)
	case uint32:
		return int64(x)
	case uint64:
		return int64(x)
	case uintptr:
		return int64(x)
	}
	panic(fmt.Sprintf("cannot convert %T to int64", x))
}

// scalarCells reports whether every cell holds an integer or bool (so that a
// symbolic index can be expressed as an ite chain).
func scalarCells(cells []value) bool {
	for _, c := range cells {
		switch c.(type) {
		case bool, symBool:
		default:
			if _, ok := intKind(c); !ok {
				return false
			}
		}
	}
	return true
}

// selectCell returns cells[idx] for symbolic idx as an ite over runs of equal cells.
func selectCell(cells []value, idx *smt.Term) value {
	c := ctx()
	n := len(cells)
	if n == 0 {
		panic("selectCell: empty")
	}
	if _, isBool := cells[0].(bool); isBool {
		return selectGeneric(cells, idx)
	}
	if _, isSB := cells[0].(symBool); isSB {
		return selectGeneric(cells, idx)
	}
	k, _ := intKind(cells[0])
	// runs of identical terms, built from the top so that the chain tests idx <= hi
	terms := make([]*smt.Term, n)
	for i, v := range cells {
		terms[i] = intTerm(v)
	}
	// split into runs
	type run struct {
		hi int
		t  *smt.Term
	}
	var runs []run
	for i := 0; i < n; i++ {
		if len(runs) > 0 && runs[len(runs)-1].t == terms[i] {
			runs[len(runs)-1].hi = i
		} else {
			runs = append(runs, run{i, terms[i]})
		}
	}
	res := runs[len(runs)-1].t
	for i := len(runs) - 2; i >= 0; i-- {
		res = c.Ite(c.Cmp(smt.OpULe, idx, c.BV(idx.W, uint64(runs[i].hi))), runs[i].t, res)
	}
	return mkInt(k, res)
}

func selectGeneric(cells []value, idx *smt.Term) value {
	c := ctx()
	res := boolTerm(cells[len(cells)-1])
	for i := len(cells) - 2; i >= 0; i-- {
		res = c.Ite(c.Eq(idx, c.BV(idx.W, uint64(i))), boolTerm(cells[i]), res)
	}
	return mkBool(res)
}

// storeCell performs cells[idx] = v for a symbolic idx.
func storeCell(cells []value, idx *smt.Term, v value) {
	c := ctx()
	for i := range cells {
		hit := c.Eq(idx, c.BV(idx.W, uint64(i)))
		switch old := cells[i].(type) {
		case bool, symBool:
			cells[i] = mkBool(c.Ite(hit, boolTerm(v), boolTerm(old)))
		default:
			k, _ := intKind(old)
			cells[i] = mkInt(k, c.Ite(hit, intTerm(v), intTerm(old)))
		}
	}
}

// symIndex resolves an index value against a length: returns either a
// concrete index (ok=true) or a bounds-checked 64-bit term.
func symIndex(idx value, n int) (int, *smt.Term) {
	s, ok := idx.(symInt)
	if !ok {
		return int(asInt64c(idx)), nil
	}
	c := ctx()
	var t64 *smt.Term
	if kindSigned(s.k) {
		t64 = c.SignExt(s.t, 64)
	} else {
		t64 = c.ZeroExt(s.t, 64)
	}
	inb := c.Cmp(smt.OpULt, t64, c.BV(64, uint64(n)))
	if !truth(mkBool(inb)) {
		panic(runtimeError("index out of range (symbolic index)"))
	}
	if t64.Op == smt.OpBVConst {
		return int(t64.K), nil
	}
	return 0, t64
}
