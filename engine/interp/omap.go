package interp

// Insertion-ordered map used for every Go map of the target program.
// Deterministic iteration order is required for fork-by-re-execution.
// Keys with symbolic content are compared with equalsV (which may fork).

import (
	"fmt"
	"go/types"
	"strings"
)

type oent struct {
	key, val value
	dead     bool
	sym      bool
	hk       any
}

type omap struct {
	keyType types.Type
	ents    []*oent
	idx     map[any]int
	n       int
	symKeys int
}

func makeMap(kt types.Type, reserve int64) value {
	return &omap{keyType: kt, idx: make(map[any]int)}
}

// hashKey returns a comparable Go value that is equal for equal concrete keys.
func hashKey(v value) (k any, sym bool) {
	switch v := v.(type) {
	case symInt, symBool, symString:
		return nil, true
	case structure:
		var sb strings.Builder
		sb.WriteString("S{")
		for _, f := range v {
			if writeHashKey(&sb, f) {
				return nil, true
			}
			sb.WriteByte(';')
		}
		sb.WriteByte('}')
		return sb.String(), false
	case array:
		var sb strings.Builder
		sb.WriteString("A{")
		for _, f := range v {
			if writeHashKey(&sb, f) {
				return nil, true
			}
			sb.WriteByte(';')
		}
		sb.WriteByte('}')
		return sb.String(), false
	case iface:
		var sb strings.Builder
		if writeHashKey(&sb, v) {
			return nil, true
		}
		return sb.String(), false
	case rtype:
		return "rtype:" + v.t.String(), false
	}
	return v, false
}

func writeHashKey(sb *strings.Builder, v value) (sym bool) {
	switch v := v.(type) {
	case symInt, symBool, symString:
		return true
	case structure:
		sb.WriteString("S{")
		for _, f := range v {
			if writeHashKey(sb, f) {
				return true
			}
			sb.WriteByte(';')
		}
		sb.WriteByte('}')
	case array:
		sb.WriteString("A{")
		for _, f := range v {
			if writeHashKey(sb, f) {
				return true
			}
			sb.WriteByte(';')
		}
		sb.WriteByte('}')
	case iface:
		if v.t == nil {
			sb.WriteString("I<nil>")
			return false
		}
		fmt.Fprintf(sb, "I<%d>", hashType(v.t))
		sb.WriteString(v.t.String())
		sb.WriteByte(':')
		return writeHashKey(sb, v.v)
	case string:
		fmt.Fprintf(sb, "s%d:%s", len(v), v)
	case *value:
		fmt.Fprintf(sb, "p%p", v)
	case rtype:
		sb.WriteString("rtype:" + v.t.String())
	case nil:
		sb.WriteString("nil")
	default:
		fmt.Fprintf(sb, "%T:%v", v, v)
	}
	return false
}

func (m *omap) find(k value) *oent {
	if m == nil {
		return nil
	}
	hk, sym := hashKey(k)
	if !sym && m.symKeys == 0 {
		if i, ok := m.idx[hk]; ok {
			return m.ents[i]
		}
		return nil
	}
	for _, e := range m.ents {
		if e.dead {
			continue
		}
		if !sym && !e.sym {
			if e.hk == hk {
				return e
			}
			continue
		}
		if truth(equalsV(m.keyType, k, e.key)) {
			return e
		}
	}
	return nil
}

func (m *omap) lookup(k value) (value, bool) {
	if e := m.find(k); e != nil {
		return e.val, true
	}
	return nil, false
}

func (m *omap) insert(k, v value) {
	if e := m.find(k); e != nil {
		e.val = v
		return
	}
	hk, sym := hashKey(k)
	e := &oent{key: k, val: v, sym: sym, hk: hk}
	m.ents = append(m.ents, e)
	m.n++
	if sym {
		m.symKeys++
	} else {
		m.idx[hk] = len(m.ents) - 1
	}
}

func (m *omap) delete(k value) {
	if m == nil {
		return
	}
	if e := m.find(k); e != nil {
		e.dead = true
		m.n--
		if e.sym {
			m.symKeys--
		} else {
			delete(m.idx, e.hk)
		}
		// compact occasionally
		if len(m.ents) > 32 && m.n < len(m.ents)/2 {
			m.compact()
		}
	}
}

func (m *omap) compact() {
	live := m.ents[:0:0]
	for _, e := range m.ents {
		if !e.dead {
			live = append(live, e)
		}
	}
	m.ents = live
	m.idx = make(map[any]int, len(live))
	for i, e := range live {
		if !e.sym {
			m.idx[e.hk] = i
		}
	}
}

func (m *omap) clear() {
	if m == nil {
		return
	}
	m.ents = nil
	m.idx = make(map[any]int)
	m.n = 0
	m.symKeys = 0
}

func (m *omap) len() int {
	if m == nil {
		return 0
	}
	return m.n
}

type omapIter struct {
	ents []*oent
	i    int
}

func (m *omap) iter() *omapIter {
	if m == nil {
		return &omapIter{}
	}
	// snapshot: entries appended during iteration are not visited; entries
	// deleted during iteration are skipped (allowed by the Go spec).
	return &omapIter{ents: m.ents[:len(m.ents):len(m.ents)]}
}

func (it *omapIter) next() tuple {
	for it.i < len(it.ents) {
		e := it.ents[it.i]
		it.i++
		if !e.dead {
			return tuple{true, e.key, e.val}
		}
	}
	return tuple{false, nil, nil}
}
