package interp

// Models for standard-library functions that have no Go body on amd64
// (assembly, runtime-linked) or rely on unsafe/reflection. All of them accept
// symbolic scalars; where the result depends on symbolic content they fork
// through truth()/concInt().

import (
	"fmt"
	"go/token"
	"go/types"
	"math"
	"strconv"

	"golang.org/x/tools/go/ssa"

	"verif/engine/smt"
)

func byteEq(a, b value) value { return mkBool(ctx().Eq(intTerm(a), intTerm(b))) }

func seqOf(v value) []value {
	switch v := v.(type) {
	case []value:
		return v
	case string, symString:
		return strBytes(v)
	}
	panic(fmt.Sprintf("seqOf: %T", v))
}

func indexByteSeq(s []value, c value) int {
	for i, b := range s {
		if truth(byteEq(b, c)) {
			return i
		}
	}
	return -1
}

func equalSeq(a, b []value) value {
	if len(a) != len(b) {
		return false
	}
	var r value = true
	for i := range a {
		if x, ok := a[i].(byte); ok {
			if y, ok := b[i].(byte); ok {
				if x != y {
					return false
				}
				continue
			}
		}
		r = andV(r, byteEq(a[i], b[i]))
	}
	return r
}

func indexSeq(s, sep []value) int {
	n := len(sep)
	for i := 0; i+n <= len(s); i++ {
		if truth(equalSeq(s[i:i+n], sep)) {
			return i
		}
	}
	return -1
}

func compareSeq(a, b []value) int {
	n := len(a)
	if len(b) < n {
		n = len(b)
	}
	c := ctx()
	for i := 0; i < n; i++ {
		x, y := intTerm(a[i]), intTerm(b[i])
		if truth(mkBool(c.Eq(x, y))) {
			continue
		}
		if truth(mkBool(c.Cmp(smt.OpULt, x, y))) {
			return -1
		}
		return 1
	}
	switch {
	case len(a) < len(b):
		return -1
	case len(a) > len(b):
		return 1
	}
	return 0
}

func countSeq(s []value, c value) int {
	n := 0
	for _, b := range s {
		if truth(byteEq(b, c)) {
			n++
		}
	}
	return n
}

func init() {
	noop := func(fr *frame, args []value) value { return nil }
	for name, fn := range map[string]externalFn{
		// ---- internal/bytealg
		"internal/bytealg.IndexByte":       func(fr *frame, a []value) value { return indexByteSeq(seqOf(a[0]), a[1]) },
		"internal/bytealg.IndexByteString": func(fr *frame, a []value) value { return indexByteSeq(seqOf(a[0]), a[1]) },
		"internal/bytealg.LastIndexByte": func(fr *frame, a []value) value {
			s := seqOf(a[0])
			for i := len(s) - 1; i >= 0; i-- {
				if truth(byteEq(s[i], a[1])) {
					return i
				}
			}
			return -1
		},
		"internal/bytealg.LastIndexByteString": func(fr *frame, a []value) value {
			s := seqOf(a[0])
			for i := len(s) - 1; i >= 0; i-- {
				if truth(byteEq(s[i], a[1])) {
					return i
				}
			}
			return -1
		},
		"internal/bytealg.Equal":         func(fr *frame, a []value) value { return equalSeq(seqOf(a[0]), seqOf(a[1])) },
		"bytes.Equal":                    func(fr *frame, a []value) value { return equalSeq(seqOf(a[0]), seqOf(a[1])) },
		"internal/bytealg.Compare":       func(fr *frame, a []value) value { return compareSeq(seqOf(a[0]), seqOf(a[1])) },
		"internal/bytealg.CompareString": func(fr *frame, a []value) value { return compareSeq(seqOf(a[0]), seqOf(a[1])) },
		"internal/bytealg.Count":         func(fr *frame, a []value) value { return countSeq(seqOf(a[0]), a[1]) },
		"internal/bytealg.CountString":   func(fr *frame, a []value) value { return countSeq(seqOf(a[0]), a[1]) },
		"internal/bytealg.Index":         func(fr *frame, a []value) value { return indexSeq(seqOf(a[0]), seqOf(a[1])) },
		"internal/bytealg.IndexString":   func(fr *frame, a []value) value { return indexSeq(seqOf(a[0]), seqOf(a[1])) },
		"internal/bytealg.MakeNoZero": func(fr *frame, a []value) value {
			n := int(concInt(a[0]))
			r := make([]value, n)
			for i := range r {
				r[i] = byte(0)
			}
			return r
		},
		"internal/stringslite.Index": func(fr *frame, a []value) value { return indexSeq(seqOf(a[0]), seqOf(a[1])) },
		"strings.Index":              func(fr *frame, a []value) value { return indexSeq(seqOf(a[0]), seqOf(a[1])) },
		"bytes.Index":                func(fr *frame, a []value) value { return indexSeq(seqOf(a[0]), seqOf(a[1])) },
		"internal/bytealg.Cutover":   func(fr *frame, a []value) value { return int(concInt(a[0])) + 1<<30 },
		"internal/bytealg.init":      noop,

		// ---- strings.Builder (unsafe)
		"(*strings.Builder).String": func(fr *frame, a []value) value {
			b := (*a[0].(*value)).(structure)
			return mkString(b[1].([]value))
		},
		"(*strings.Builder).copyCheck": noop,
		"(*strings.Builder).grow":      func(fr *frame, a []value) value { return nil },
		"(*strings.Builder).Grow":      func(fr *frame, a []value) value { return nil },
		"strings.Clone":                func(fr *frame, a []value) value { return a[0] },
		"internal/stringslite.Clone":   func(fr *frame, a []value) value { return a[0] },
		"bytes.Clone": func(fr *frame, a []value) value {
			if s, ok := a[0].([]value); ok && s != nil {
				return append([]value{}, s...)
			}
			return a[0]
		},

		// ---- sync / atomic: single-threaded unless the scheduler is active
		"(*sync.Mutex).Lock":      syncOp("Lock"),
		"(*sync.Mutex).Unlock":    syncOp("Unlock"),
		"(*sync.Mutex).TryLock":   func(fr *frame, a []value) value { return true },
		"(*sync.RWMutex).Lock":    syncOp("Lock"),
		"(*sync.RWMutex).Unlock":  syncOp("Unlock"),
		"(*sync.RWMutex).RLock":   syncOp("RLock"),
		"(*sync.RWMutex).RUnlock": syncOp("RUnlock"),
		"(*sync.WaitGroup).Add":   syncOp("WGAdd"),
		"(*sync.WaitGroup).Done":  syncOp("WGDone"),
		"(*sync.WaitGroup).Wait":  syncOp("WGWait"),
		"(*sync.Pool).Get": func(fr *frame, a []value) value {
			// p.New()
			p := (*a[0].(*value)).(structure)
			newFn := p[len(p)-1]
			return callMaybe(fr, newFn)
		},
		"(*sync.Pool).Put":     noop,
		"runtime.SetFinalizer": noop,
		"runtime.KeepAlive":    noop,
		"runtime.Gosched":      noop,
		"runtime.GC":           noop,
		"runtime.Caller":       func(fr *frame, a []value) value { return tuple{uintptr(0), "", 0, false} },
		"runtime.Callers":      func(fr *frame, a []value) value { return 0 },
		"runtime/debug.Stack":  func(fr *frame, a []value) value { return []value{} },
		"time.Now":             func(fr *frame, a []value) value { panic(engineAbort{"unsupported", "code under test reads the clock"}) },
		"time.Sleep":           noop,
		"os.Getenv":            func(fr *frame, a []value) value { return "" },
		"os.LookupEnv":         func(fr *frame, a []value) value { return tuple{"", false} },
		"math/rand.Int":        func(fr *frame, a []value) value { panic(engineAbort{"unsupported", "code under test uses randomness"}) },
		"math/rand.Intn":       func(fr *frame, a []value) value { panic(engineAbort{"unsupported", "code under test uses randomness"}) },

		// ---- math helpers implemented via unsafe or assembly
		"math.Float64bits":     func(fr *frame, a []value) value { return math.Float64bits(a[0].(float64)) },
		"math.Float64frombits": func(fr *frame, a []value) value { return math.Float64frombits(uint64(concInt(a[0]))) },
		"math.Float32bits":     func(fr *frame, a []value) value { return math.Float32bits(a[0].(float32)) },
		"math.Float32frombits": func(fr *frame, a []value) value { return math.Float32frombits(uint32(concInt(a[0]))) },
		"math.Floor":           func(fr *frame, a []value) value { return math.Floor(a[0].(float64)) },
		"math.Ceil":            func(fr *frame, a []value) value { return math.Ceil(a[0].(float64)) },
		"math.Trunc":           func(fr *frame, a []value) value { return math.Trunc(a[0].(float64)) },
		"math.Modf": func(fr *frame, a []value) value {
			i, f := math.Modf(a[0].(float64))
			return tuple{i, f}
		},
		"math.Frexp": func(fr *frame, a []value) value {
			f, e := math.Frexp(a[0].(float64))
			return tuple{f, e}
		},
		"math.Pow":     func(fr *frame, a []value) value { return math.Pow(a[0].(float64), a[1].(float64)) },
		"math.Log2":    func(fr *frame, a []value) value { return math.Log2(a[0].(float64)) },
		"math.Log10":   func(fr *frame, a []value) value { return math.Log10(a[0].(float64)) },
		"math.IsInf":   func(fr *frame, a []value) value { return math.IsInf(a[0].(float64), int(concInt(a[1]))) },
		"math.Signbit": func(fr *frame, a []value) value { return math.Signbit(a[0].(float64)) },
		"math.Mod":     func(fr *frame, a []value) value { return math.Mod(a[0].(float64), a[1].(float64)) },
		"math.Round":   func(fr *frame, a []value) value { return math.Round(a[0].(float64)) },
		"math.FMA":     func(fr *frame, a []value) value { return math.FMA(a[0].(float64), a[1].(float64), a[2].(float64)) },

		// strconv pieces that are cheap to provide natively for concrete operands
		"strconv.Itoa": func(fr *frame, a []value) value {
			if _, sym := a[0].(symInt); sym {
				return notHandled{}
			}
			return strconv.Itoa(int(asInt64c(a[0])))
		},
		"strconv.FormatFloat": func(fr *frame, a []value) value {
			return strconv.FormatFloat(a[0].(float64), byte(concInt(a[1])), int(concInt(a[2])), int(concInt(a[3])))
		},
		"strconv.ParseFloat": func(fr *frame, a []value) value {
			s, ok := a[0].(string)
			if !ok {
				return notHandled{}
			}
			f, err := strconv.ParseFloat(s, int(concInt(a[1])))
			if err != nil {
				return notHandled{}
			}
			return tuple{f, iface{}}
		},
	} {
		externals[name] = fn
	}
	for _, w := range []string{"32", "64"} {
		w := w
		for _, s := range []string{"Int", "Uint"} {
			s := s
			externals["sync/atomic.Load"+s+w] = func(fr *frame, a []value) value { yield("atomic"); return *a[0].(*value) }
			externals["sync/atomic.Store"+s+w] = func(fr *frame, a []value) value { yield("atomic"); *a[0].(*value) = a[1]; return nil }
			externals["sync/atomic.Add"+s+w] = func(fr *frame, a []value) value {
				yield("atomic")
				p := a[0].(*value)
				*p = binop(token.ADD, nil, *p, a[1])
				return *p
			}
			externals["sync/atomic.Swap"+s+w] = func(fr *frame, a []value) value {
				yield("atomic")
				p := a[0].(*value)
				old := *p
				*p = a[1]
				return old
			}
			externals["sync/atomic.CompareAndSwap"+s+w] = func(fr *frame, a []value) value {
				yield("atomic")
				p := a[0].(*value)
				if truth(eqScalar(*p, a[1])) {
					*p = a[2]
					return true
				}
				return false
			}
			externals["sync/atomic.And"+s+w] = func(fr *frame, a []value) value {
				p := a[0].(*value)
				old := *p
				*p = binop(token.AND, nil, *p, a[1])
				return old
			}
			externals["sync/atomic.Or"+s+w] = func(fr *frame, a []value) value {
				p := a[0].(*value)
				old := *p
				*p = binop(token.OR, nil, *p, a[1])
				return old
			}
		}
	}
	externals["sync/atomic.LoadPointer"] = func(fr *frame, a []value) value { yield("atomic"); return *a[0].(*value) }
	externals["sync/atomic.StorePointer"] = func(fr *frame, a []value) value { yield("atomic"); *a[0].(*value) = a[1]; return nil }
	externals["sync/atomic.LoadUintptr"] = func(fr *frame, a []value) value { return *a[0].(*value) }
	externals["sync/atomic.StoreUintptr"] = func(fr *frame, a []value) value { *a[0].(*value) = a[1]; return nil }
	externals["sync/atomic.CompareAndSwapPointer"] = func(fr *frame, a []value) value {
		yield("atomic")
		p := a[0].(*value)
		if *p == a[1] {
			*p = a[2]
			return true
		}
		return false
	}
	_ = types.Int
}

func callMaybe(fr *frame, fn value) value {
	switch f := fn.(type) {
	case nil:
		return iface{}
	case *closure:
		if f == nil {
			return iface{}
		}
		return call(fr.i, fr, 0, f, nil)
	default:
		if isNilFunc(fn) {
			return iface{}
		}
		return call(fr.i, fr, 0, fn, nil)
	}
}

func isNilFunc(fn value) bool {
	switch f := fn.(type) {
	case *ssa.Function:
		return f == nil
	case *closure:
		return f == nil
	case *ssa.Builtin:
		return f == nil
	}
	return fn == nil
}

// syncOp is a lock/waitgroup operation: a no-op in sequential harnesses, a
// scheduling point handled by the scheduler otherwise.
func syncOp(kind string) externalFn {
	return func(fr *frame, a []value) value {
		if sched == nil && (kind == "WGAdd" || kind == "WGDone" || kind == "WGWait") {
			// a WaitGroup announces goroutines: start tracking before the first go statement
			sched = newScheduler(fr.i)
		}
		if sched != nil {
			sched.syncOp(kind, a)
		}
		return nil
	}
}

func yield(kind string) {
	if sched != nil {
		sched.yield(kind)
	}
}

// ---- encoding/json.Unmarshal into *string / *json.Number (reflection in the real library)

func allConcrete(b []value) bool {
	for _, x := range b {
		if _, ok := x.(symInt); ok {
			return false
		}
	}
	return true
}

func init() {
	externals["encoding/json.Unmarshal"] = func(fr *frame, a []value) value {
		data := a[0].([]value)
		tgt := a[1].(iface)
		tn := typeName(tgt.t)
		jp := fr.i.prog.ImportedPackage("encoding/json")
		mp := fr.i.prog.ImportedPackage("verif/engine/vfmodel")
		if mp == nil {
			panic(engineAbort{"unsupported", "json.Unmarshal model package not loaded"})
		}
		syntaxErr := func(off value) value {
			t := jp.Type("SyntaxError")
			var cell value = structure{"invalid JSON", off}
			return iface{types.NewPointer(t.Type()), &cell}
		}
		switch tn {
		case "*string":
			res := call(fr.i, fr, 0, mp.Func("UnmarshalString"), []value{data}).(tuple)
			off := res[1]
			if truth(binop(token.LSS, types.Typ[types.Int64], off, int64(0))) {
				*tgt.v.(*value) = res[0]
				return iface{}
			}
			return syntaxErr(off)
		case "*json.Number":
			ok := call(fr.i, fr, 0, mp.Func("ValidNumberToken"), []value{data})
			if truth(ok) {
				// the literal text, trimmed of JSON whitespace (none in hcl's tokens)
				*tgt.v.(*value) = mkString(data)
				return iface{}
			}
			return syntaxErr(int64(1))
		}
		panic(engineAbort{"unsupported", "json.Unmarshal into " + tn})
	}
}

// ---- sort.Slice / sort.SliceStable / sort.SliceIsSorted (reflectlite.Swapper in the real library)

func init() {
	sortSlice := func(fr *frame, a []value) value {
		xs, _ := a[0].(iface).v.([]value)
		less := a[1]
		lt := func(i, j int) bool { return truth(call(fr.i, fr, 0, less, []value{i, j})) }
		// stable insertion sort by adjacent swaps (less is index-based, so elements must be in place)
		for i := 1; i < len(xs); i++ {
			for j := i; j > 0 && lt(j, j-1); j-- {
				xs[j], xs[j-1] = xs[j-1], xs[j]
			}
		}
		return nil
	}
	externals["sort.Slice"] = sortSlice
	externals["sort.SliceStable"] = sortSlice
	externals["sort.SliceIsSorted"] = func(fr *frame, a []value) value {
		xs, _ := a[0].(iface).v.([]value)
		less := a[1]
		for i := len(xs) - 1; i > 0; i-- {
			if truth(call(fr.i, fr, 0, less, []value{i, i - 1})) {
				return false
			}
		}
		return true
	}
}

// ---- reflect.DeepEqual over boxed values (symbolic scalars allowed)

func deepEqualV(t types.Type, x, y value, depth int) value {
	if depth > 50 {
		panic(engineAbort{"unsupported", "reflect.DeepEqual recursion too deep"})
	}
	switch ut := t.Underlying().(type) {
	case *types.Interface:
		xi, yi := x.(iface), y.(iface)
		if xi.t == nil || yi.t == nil {
			return xi.t == nil && yi.t == nil
		}
		if !types.Identical(xi.t, yi.t) {
			return false
		}
		return deepEqualV(xi.t, xi.v, yi.v, depth+1)
	case *types.Slice:
		xs, ys := x.([]value), y.([]value)
		if (xs == nil) != (ys == nil) || len(xs) != len(ys) {
			return false
		}
		var r value = true
		for i := range xs {
			r = andV(r, deepEqualV(ut.Elem(), xs[i], ys[i], depth+1))
			if r == false {
				return false
			}
		}
		return r
	case *types.Array:
		xs, ys := x.(array), y.(array)
		var r value = true
		for i := range xs {
			r = andV(r, deepEqualV(ut.Elem(), xs[i], ys[i], depth+1))
		}
		return r
	case *types.Struct:
		xs, ys := x.(structure), y.(structure)
		var r value = true
		for i := 0; i < ut.NumFields(); i++ {
			r = andV(r, deepEqualV(ut.Field(i).Type(), xs[i], ys[i], depth+1))
			if r == false {
				return false
			}
		}
		return r
	case *types.Pointer:
		xp, yp := x.(*value), y.(*value)
		if xp == yp {
			return true
		}
		if xp == nil || yp == nil {
			return false
		}
		return deepEqualV(ut.Elem(), *xp, *yp, depth+1)
	case *types.Map:
		xm, ym := x.(*omap), y.(*omap)
		if (xm == nil) != (ym == nil) || xm.len() != ym.len() {
			return false
		}
		var r value = true
		it := xm.iter()
		for {
			tu := it.next()
			if !tu[0].(bool) {
				break
			}
			yv, ok := ym.lookup(tu[1])
			if !ok {
				return false
			}
			r = andV(r, deepEqualV(ut.Elem(), tu[2], yv, depth+1))
		}
		return r
	case *types.Signature:
		return isNilFunc(x) && isNilFunc(y)
	}
	return equalsV(t, x, y)
}

func init() {
	externals["reflect.DeepEqual"] = func(fr *frame, a []value) value {
		xi, yi := a[0].(iface), a[1].(iface)
		if xi.t == nil || yi.t == nil {
			return xi.t == nil && yi.t == nil
		}
		if !types.Identical(xi.t, yi.t) {
			return false
		}
		return truth(deepEqualV(xi.t, xi.v, yi.v, 0))
	}
}

func init() {
	// hcldec registers its spec types with encoding/gob at init time (reflection; irrelevant to decoding)
	externals["encoding/gob.Register"] = func(fr *frame, a []value) value { return nil }
	externals["encoding/gob.RegisterName"] = func(fr *frame, a []value) value { return nil }
}

func init() {
	// Checksums over symbolic bytes (cty hashes set elements with CRC-64): the table-driven
	// CRC builds nested selects no solver finishes, so the data is made concrete first
	// (every feasible byte string is enumerated) and the real code is interpreted on it.
	concretizeData := func(idx int) externalFn {
		return func(fr *frame, a []value) value {
			if data, ok := a[idx].([]value); ok {
				for i, b := range data {
					if _, sym := b.(symInt); sym {
						data[i] = concValue(b)
					}
				}
			}
			return notHandled{}
		}
	}
	externals["hash/crc64.Checksum"] = concretizeData(0)
	externals["hash/crc64.Update"] = concretizeData(2)
	externals["hash/crc64.update"] = concretizeData(2)
	externals["hash/crc32.ChecksumIEEE"] = concretizeData(0)
	externals["hash/crc32.Checksum"] = concretizeData(0)
	externals["hash/crc32.Update"] = concretizeData(2)
}
