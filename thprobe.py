#!/usr/bin/env python3
"""thprobe.py [ids...] : run every harness of the given checks with its THOROUGH parameters
under a wall-clock cap and append {check, harness, params, paths, wall, incomplete, violations}
to /tmp/thprobe.jsonl. Development aid for calibrating the thorough tier (not a registered command)."""
import json, os, subprocess, sys, time

CAP = int(os.environ.get("THPROBE_CAP", "900"))
ids = sys.argv[1:] or ["C%02d" % i for i in range(1, 21) if i != 16]
env = dict(os.environ)
env["PATH"] = "/root/go/pkg/mod/golang.org/toolchain@v0.0.1-go1.24.0.linux-amd64/bin:" + env["PATH"]
env.update(GOTOOLCHAIN="local", GOFLAGS="-mod=mod", GOPROXY="off")
kf = {}
for l in open("/verif/known_findings.txt"):
    if l.startswith("known:"):
        parts = l.split()
        prop = parts[1].split("=")[1]
        kid = parts[2].split("=")[1]
        kf.setdefault(prop, []).append(kid)
only = os.environ.get("THPROBE_ONLY")
for cid in ids:
    cfg = json.load(open("/verif/checks/%s.json" % cid))
    for h in cfg["harnesses"]:
        if h.get("tiers") and "thorough" not in h["tiers"]:
            continue
        label = h["entry"] + ("[" + h["name"] + "]" if h.get("name") else "")
        if only and only not in label:
            continue
        params = dict(h.get("params", {}))
        params.update(h.get("thorough", {}))
        out = "/tmp/thprobe-%s-%s.json" % (cid, label.replace("[", "_").replace("]", ""))
        cmd = ["/verif/bin/gosym", "-pkg", h["pkg"], "-entry", h["entry"], "-workers", "8", "-out", out, "-timeout", "%ds" % CAP]
        if params:
            cmd += ["-param", ",".join("%s=%d" % kv for kv in sorted(params.items()))]
        if kf.get(cid):
            cmd += ["-known", ",".join(kf[cid])]
        if h.get("maxdec"):
            cmd += ["-maxdec", str(h["maxdec"])]
        if h.get("nofast"):
            cmd += ["-nofast"]
        t0 = time.time()
        try:
            subprocess.run(cmd, cwd="/verif/engine", env=env, capture_output=True, text=True, timeout=CAP + 300)
            r = json.load(open(out))
        except Exception as e:
            r = {"Incomplete": "probe error: %s" % e, "Paths": 0}
        rec = dict(check=cid, harness=label, params=params, paths=r.get("Paths"), wall=round(time.time() - t0, 1),
                   incomplete=r.get("Incomplete"), violations=r.get("ViolationCnt"), outcomes=r.get("Outcomes"),
                   unknown=r.get("Unknown"))
        open("/tmp/thprobe.jsonl", "a").write(json.dumps(rec) + "\n")
        print(json.dumps(rec), flush=True)
