# sourced by every script: offline Go toolchain matching /repo's go.mod
export PATH=/root/go/pkg/mod/golang.org/toolchain@v0.0.1-go1.24.0.linux-amd64/bin:$PATH
export GOTOOLCHAIN=local GOFLAGS=-mod=mod GOPROXY=off GONOSUMDB=* GONOSUMCHECK=1 GOFLAGS=-mod=mod
