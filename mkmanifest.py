#!/usr/bin/env python3
"""Regenerates MANIFEST.json from checks/*.json + manifest_meta.json (claimed checks, N/A reasons)."""
import json, os
ROOT = os.path.dirname(os.path.abspath(__file__))
meta = json.load(open(os.path.join(ROOT, "manifest_meta.json")))
props = [json.loads(l)["id"] for l in open(os.path.join(ROOT, "properties.jsonl"))]
checks, na = [], []
for pid in props:
    m = meta["claimed"].get(pid)
    if m and os.path.exists(os.path.join(ROOT, "checks", pid + ".json")):
        checks.append(dict(
            property_id=pid,
            quick_cmd="./check %s --tier quick" % pid,
            thorough_cmd="./check %s --tier thorough" % pid,
            evidence_file="/verif/evidence/%s.json" % pid,
            replay_cmd_template="./check %s --replay {path}" % pid,
            engine="gosym",
            level_claimed=dict(category="model_checking", text=m["text"], design_ref=m.get("design_ref", "DESIGN.md section 4 " + pid)),
            level_note=m["note"],
            technique="bounded symbolic execution of the real Go code (go/ssa interpreter with SMT-term scalars), path conditions and assertions decided by z3; counterexamples replayed natively",
        ))
    else:
        na.append(dict(property_id=pid, reason=meta["not_applicable"].get(pid, "no check registered yet (work in progress); nothing is claimed for this property")))
man = dict(
    version=1,
    setup_cmd="./setup.sh",
    hooks=dict(guard="verif", enable="no hooks are needed: harnesses live in /verif/engine/h and reach unexported code through //go:linkname; /repo is loaded from source (go/packages) with -tags=verif on every run",
               baseline_off_cmd="cd /repo && go test -vet=off -count=1 -timeout 25m ./...", source_commits=[], add_only=True),
    engines=[dict(name="gosym", path="/verif/engine", serves_properties=[c["property_id"] for c in checks],
                  kind_free_text="symbolic executor for Go built on a fork of golang.org/x/tools/go/ssa/interp: SMT bit-vector terms as scalar values, fork-by-re-execution, z3 (5.1.0) for path conditions and assertions, native replay of every counterexample")],
    checks=checks,
    notes=meta.get("notes", ""),
    not_applicable=na,
)
json.dump(man, open(os.path.join(ROOT, "MANIFEST.json"), "w"), indent=1)
print("claimed:", [c["property_id"] for c in checks], "n/a:", len(na))
