#!/bin/sh
# dbgmut.sh <seeded-id> <pkg> <entry> [params] : run one harness against a patched COPY of /repo (GOSYM_DEBUG stack traces on)
. /verif/env.sh
sid=$1; pkg=$2; entry=$3; params=$4
wt=/tmp/dbgrepo-$sid
git -C /repo worktree remove --force $wt 2>/dev/null
git -C /repo worktree add -q --detach $wt HEAD || exit 1
git -C $wt apply /verif/seeded/$sid/patch.diff || exit 1
sed "s|=> /repo|=> $wt|" /verif/engine/go.mod > /tmp/dbgmod-$sid.mod; cp /verif/engine/go.sum /tmp/dbgmod-$sid.sum
export GOFLAGS="-mod=mod -modfile=/tmp/dbgmod-$sid.mod"
[ -n "$params" ] && P="-param $params"
cd /verif/engine
GOSYM_DEBUG=${DBG:-} timeout ${T:-600} /verif/bin/gosym -pkg verif/engine/h/$pkg -entry $entry $P -workers ${W:-8} ${KNOWN:+-known $KNOWN} -out /tmp/dbg-$sid.json -timeout ${T:-600}s 2>&1 | grep -v "paths, queue" | tail -3
git -C /repo worktree remove --force $wt; rm -f /tmp/dbgmod-$sid.*
python3 - /tmp/dbg-$sid.json <<'PY'
import json,sys
r=json.load(open(sys.argv[1]))
print({k:r[k] for k in ['Paths','Outcomes','Queries','WallS','ViolationCnt','Messages','Incomplete'] if r.get(k)})
for v in (r['Violations'] or [])[:6]:
    print(' VIOL', v['id'], '|', v.get('inputs'), '|', (v.get('msg') or '')[:1500])
PY
