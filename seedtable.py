#!/usr/bin/env python3
"""seedtable.py <round-suffix> : print a markdown table of the seeded mutations whose id contains the
suffix (e.g. -r2, -r3), from seeded/*/meta.json: id, code site, violated assertion(s) of the check run."""
import glob, json, os, re, sys

suffix = sys.argv[1]
print("| id | change (site) | caught by |")
print("|---|---|---|")
for d in sorted(glob.glob("/verif/seeded/*%s*" % suffix)):
    try:
        m = json.load(open(d + "/meta.json"))
    except Exception:
        continue
    what = (m.get("what_it_breaks") or "").replace("\n", " ").replace("|", "/")
    site = what.split(":")[0][:90]
    first = what[len(site) + 1:].strip().split(". ")[0][:150]
    c = m.get("check") or {}
    ids = []
    for l in c.get("violation_lines") or []:
        mm = re.search(r"replays/[^-]+-(.*)-[0-9a-f]{6,}", l)
        if mm:
            i = re.sub(r"__.*", "", mm.group(1))
            if i not in ids:
                ids.append(i)
    caught = ", ".join("`%s`" % i for i in ids[:2]) if c.get("caught") else "**missed**"
    print("| %s | %s — %s | %s |" % (os.path.basename(d), site, first, caught))
