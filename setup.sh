#!/bin/sh
# Build the verification engine offline from files on disk, validate its models.
set -e
cd "$(dirname "$0")"
. ./env.sh
# Transparent huge pages make the interpreter (a pointer-heavy boxed-value heap) scale
# across cores in this VM; best effort, harmless if not permitted.
(echo always > /sys/kernel/mm/transparent_hugepage/enabled) 2>/dev/null || true
mkdir -p bin evidence replays
cd engine
go build -o ../bin/gosym ./cmd/gosym
go build -o ../bin/replay ./cmd/replay
# the Go models that replace reflection-based std functions must agree with the real ones
go test -count=1 ./vfmodel/ ./smt/
cd ..
# engine self-validation: concrete runs of the real code under the interpreter vs natively
./check SELFTEST --tier quick
