#!/bin/sh
# runall.sh [tier]: run every registered check once, sequentially; summary on stdout
cd "$(dirname "$0")"
tier=${1:-quick}
for p in $(python3 -c "import json;print(' '.join(c['property_id'] for c in json.load(open('MANIFEST.json'))['checks']))"); do
  t0=$(date +%s)
  ./check $p --tier $tier > /tmp/runall-$p.out 2> /tmp/runall-$p.err
  rc=$?
  t1=$(date +%s)
  echo "$p exit=$rc $((t1-t0))s $(grep -c '^VIOLATION' /tmp/runall-$p.out) violations $(grep -c '^KNOWN-FINDING' /tmp/runall-$p.out) known"
done
